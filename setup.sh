#!/bin/sh
# MANIFEST.setup_cmd: build shims, probe and the zerv CLI from /repo's working tree (offline).
set -e
cd "$(dirname "$0")"
export CARGO_NET_OFFLINE=true
python3 -m zv.build
python3 -m zv.refs.semver
python3 -m zv.refs.pep440
python3 -m zv.refs.sanitize
python3 -m zv.refs.cal
python3 -m zv.ron
