#!/usr/bin/env python3
"""Regenerates /verif/MANIFEST.json from the table below (single source of truth)."""
import json
import os

VERIF = os.path.dirname(os.path.dirname(os.path.abspath(__file__)))

def C(technique, text, note, ref, category="exploration"):
    return dict(technique=technique, text=text, note=note, ref=ref, category=category)


PROBE = "in-process probe (Rust binary linking /repo as a library, JSON lines)"
CHECKS = {
    "C01": C("runtime monitor on the real binary's stdout: independent SemVer / normalised-PEP 440 recognisers + zerv's own check and re-render, over generated sources, schemas, hostile Unicode values and flags",
             "Every emitted string of thousands of generated runs (sources none / stdin / git, presets and random RON schemas, Unicode text, override and bump flags) is parsed by recognisers written from the two specs and fed back to zerv check/render; held-on-observed.",
             "Trusts the reference recognisers (self-tested, PEP 440 one cross-checked against `packaging` when importable). Runs zerv refuses are outside the property and only counted.", "DESIGN.md §4 C01"),
    "C02": C("runtime monitor with reference model: random git histories built with native git, shadow commit-DAG model as oracle, observed through probe (VcsData) and binary (--output-format zerv)",
             "After roughly every second step of random histories (merges, random committer/author/tagger dates, tags on unreachable / already tagged commits, 7 dirt kinds, detached HEAD, 3 input formats) the reported tag, distance, dirtiness, branch, hashes and times are compared with the model. The pinned suite never runs git.rs at all.",
             "Trusts native git 2.39 to execute the generator's operations; ties accept every admissible candidate; histories up to 40 operations.", "DESIGN.md §4 C02"),
    "C03": C("runtime monitor: independent SemVer-precedence and true-PEP 440 comparators applied to `zerv flow` output strings over generated states and along real git histories",
             "Bounds X.Y.Z < V < X.Y.(Z+1), exactness when clean, strict growth with distance and stability of clean pre-release tags are checked on zerv's printed strings with comparators that share no code with zerv; real repositories cover forks before the tag, second-parent tags and merges.",
             "Two presets without pre-release part are judged with <= on the public version (documented behaviour).", "DESIGN.md §4 C03"),
    "C04": C("runtime monitor with reference model: flow law (rule lookup, number source, patch/post/dev rules) vs. `flow --output-format zerv` under a pinned clock; branch hash learned and cross-checked across processes",
             "Thousands of (tag, branch, distance, dirty, --post, label/num, post-mode, hash length, rule set) combinations on sources none and stdin are executed on the real pipeline and compared field by field with the law applied to zerv's own no-flow state.",
             "Hash value is learned, not pinned; names ending in '/' and numeric segments above u32 are report-only.", "DESIGN.md §4 C04"),
    "C05": C("runtime monitor with reference model: precedence/bump law vs. `version --output-format zerv`, flag-order metamorphic runs, model-free higher-level invariant",
             "Random flag subsets (by-name and index-addressed, valid and invalid) over tag and stdin starts; each executed in three flag orders; result compared with the eleven-level law, refusals must be refusals.",
             "Start state is what zerv prints for the same command line without component flags; three CLI-help assumptions listed in DESIGN.", "DESIGN.md §4 C05"),
    "C06": C("runtime monitor with reference model: reference renderer (rules of the statement) vs. SemVer::from(Zerv) / PEP440::from(Zerv) on random valid schemas and variable assignments; tier function with metamorphic partner",
             "Tens of thousands of random (schema, vars) objects rendered by the real library and compared character for character with the reference renderer; tier choice of smart presets checked incl. independence from all other variables.",
             "Numbers beyond the target format's integer range are out of the property's domain (counted).", "DESIGN.md §4 C06"),
    "C07": C("runtime monitor: string-level expectations for `zerv render` conversions (canonical shapes, PEP 440 spellings, fixed points, out-of-range numbers) on the real run_render, mirrored on the binary",
             "Expected strings are assembled from generated fields, never from zerv's parsers; equality of round trips is judged by the reference PEP 440 key.", "Refusing an arbitrary non-canonical SemVer is not counted.", "DESIGN.md §4 C07"),
    "C08": C("runtime monitor: exhaustive short strings + grammar-directed mutation against a hand-written SemVer 2.0.0 recogniser; check sub-command verdict in-process and on the binary",
             "All strings up to length 5/6 over an 11-symbol alphabet incl. non-ASCII digits/letters, suffix enumeration after grammar-relevant prefixes, mutated long versions and u64 edges: acceptance, lossless printing and `zerv check` verdict.",
             "Oracle is a transcription of the semver.org BNF.", "DESIGN.md §4 C08"),
    "C09": C("runtime monitor: exhaustive short strings + structured spellings against the Appendix-B recogniser and an own normaliser (cross-checked with `packaging`); idempotence, equality, check verdict and text",
             "Acceptance, normal form, idempotence, equality of normal form and original, and the check report for ~0.8 M (quick) strings.", "Strings with surrounding whitespace are outside the statement.", "DESIGN.md §4 C09"),
    "C10": C("runtime monitor: all-pairs comparison matrices of the real Ord/PartialOrd/== on parsed SemVer values against the reference precedence key; max-tag selection with permutations",
             "Agreement with a reference total order on every ordered pair of a set implies antisymmetry, transitivity and totality on it; tens of millions of pairs per run.", "Small universe exhaustive in the thorough tier.", "DESIGN.md §4 C10"),
    "C11": C("runtime monitor: all-pairs matrices over several spellings of each PEP 440 version against the key stated in the property",
             "Every pair of a few thousand spelled versions is compared by the real implementation; all spellings of one version must be Equal and order identically.", "Oracle is the statement's key, not real PEP 440.", "DESIGN.md §4 C11"),
    "C12": C("runtime monitor: emit -> independent RON reader -> re-emit byte comparison; piped vs direct rendering under a pinned clock; structural and textual RON mutants must be refused or denote the same object",
             "Emitted objects from all sources must re-emit identically, preserve every field as read by an independent reader, satisfy the placement rules and render the same when piped; ~2 k mutants per quick run test refusal.",
             "zv.ron reads the subset zerv emits; mutants it cannot read are counted, not judged (except trailing garbage).", "DESIGN.md §4 C12"),
    "C13": C("fault injection + argv fuzzing on the real binary: PATH git shim fails every git invocation in turn in 9 modes; flag tables scraped from --help; exit/stdout/stderr oracle incl. -v and RUST_LOG=trace",
             "Every git call zerv makes (k = 1..n) is failed in each mode on several repositories and commands; ~5 k adversarial argument vectors; panics, stdout-on-failure, silent failures and log lines on stdout are the refuting events.",
             "Watchdog timeouts are counted, never judged.", "DESIGN.md §4 C13", category="fault_enumeration"),
    "C14": C("runtime monitor across environments: same input executed as separate processes under varied TZ, locale, cwd, -C form, HOME, junk variables and two pinned wall clocks (LD_PRELOAD clock shim with read log)",
             "Output must be identical across environments; across clocks only the documented dev timestamp may differ; date-derived output is compared with the UTC calendar.", "GIT_* variables are inputs and not varied.", "DESIGN.md §4 C14"),
    "C15": C("runtime monitor: one template printing every documented variable and generated function calls, rendered by the real Tera setup, compared with direct renderings, the object and the function contracts, under several TZ values",
             "String identities from the statement (semver/pep440 equality, recomposition, docker form, scalars) and function contracts incl. sanitize = C16 model and format_timestamp = UTC calendar.", "hash values learned, only length/alphabet contracts fixed.", "DESIGN.md §4 C15"),
    "C16": C("runtime monitor: in-process probe of Sanitizer::sanitize vs. contract model, exhaustive short strings x all 96 settings + random Unicode + idempotence re-run",
             "Every (setting, input) pair of an exhaustive short-string universe and a random Unicode sample is executed on the real library and judged by an independent model of the contract.",
             "Two admissible truncation windows (DESIGN); separator=None asserts only length/idempotence/no panic.", "DESIGN.md §4 C16"),
    "C17": C("runtime monitor: resolve_timestamp on every day 1970-2199 (first/last second) x 16 patterns against an own civil calendar, shards under non-UTC TZ; calver presets and ts() components through the binary",
             "The pinned suite only ever runs in UTC on a handful of instants; this runs the real code on every calendar day under +14h / -11h zones.", "CLI values compared as integers.", "DESIGN.md §4 C17"),
    "C18": C("runtime monitor on the real Python package: argv captured from subprocess.run, option tables scraped from the binary's --help, return value vs. independently assembled command line",
             "Finite space: every keyword singly with value / None / False, plus random subsets and failing commands.", "Keyword-to-option naming convention stated in DESIGN.", "DESIGN.md §4 C18"),
}

PENDING_REASON = "check not implemented yet in this revision (planned, see DESIGN.md §4)"


def main():
    props = [json.loads(l) for l in open(os.path.join(VERIF, "properties.jsonl"))]
    checks = []
    na = []
    for p in props:
        pid = p["id"]
        c = CHECKS.get(pid)
        if not c:
            na.append(dict(property_id=pid, reason=PENDING_REASON))
            continue
        checks.append(dict(
            property_id=pid,
            quick_cmd="./check %s --tier quick" % pid,
            thorough_cmd="./check %s --tier thorough" % pid,
            evidence_file="/verif/evidence/%s.json" % pid,
            replay_cmd_template="./check %s --replay {path}" % pid,
            engine="zv",
            level_claimed=dict(category=c.get("category", "exploration"), text=c["text"], design_ref=c["ref"]),
            level_note=c["note"],
            technique=c["technique"],
        ))
    man = dict(
        version=1,
        setup_cmd="./setup.sh",
        hooks=dict(
            guard="none (no source hooks: all instrumentation is external - LD_PRELOAD clock shim, PATH git shim, probe crate linking /repo as a library)",
            enable="./setup.sh builds /repo's working tree unmodified (cargo build --release --offline in /verif/probe, which compiles /repo/src/main.rs and the zerv lib)",
            baseline_off_cmd="cd /repo && cargo test --workspace --no-fail-fast --offline",
            source_commits=[],
            add_only=True,
        ),
        engines=[dict(name="zv", path="/verif/zv", serves_properties=sorted(CHECKS),
                      kind_free_text="Python monitors with independent reference oracles observing the real zerv binary (subprocess) and the real "
                                     "zerv library (in-process Rust probe over JSON lines); clock and git controlled by external shims")],
        checks=checks,
        notes="See DESIGN.md. Exit codes: 0 held, 1 VIOLATION, 2 inconclusive (never on the unchanged tree).",
        not_applicable=na,
    )
    with open(os.path.join(VERIF, "MANIFEST.json"), "w") as f:
        json.dump(man, f, indent=1)
        f.write("\n")


if __name__ == "__main__":
    main()
