#!/usr/bin/env python3
"""Regenerates /verif/MANIFEST.json from the table below (single source of truth)."""
import json
import os

VERIF = os.path.dirname(os.path.dirname(os.path.abspath(__file__)))

CHECKS = {
    "C16": dict(
        technique="runtime monitor: in-process probe of Sanitizer::sanitize vs. contract model, exhaustive short strings x all settings + random Unicode",
        text="Every (setting, input) pair of an exhaustive short-string universe and a random Unicode sample is executed on the real "
             "library and judged by an independent model of the contract; held-on-all-observed, not a proof.",
        note="Trusts the probe's 10-line dispatch and the Python contract model; inputs longer than 6 symbols only sampled.",
        ref="DESIGN.md §4 C16"),
}

PENDING_REASON = "check not implemented yet in this revision (planned, see DESIGN.md §4)"


def main():
    props = [json.loads(l) for l in open(os.path.join(VERIF, "properties.jsonl"))]
    checks = []
    na = []
    for p in props:
        pid = p["id"]
        c = CHECKS.get(pid)
        if not c:
            na.append(dict(property_id=pid, reason=PENDING_REASON))
            continue
        checks.append(dict(
            property_id=pid,
            quick_cmd="./check %s --tier quick" % pid,
            thorough_cmd="./check %s --tier thorough" % pid,
            evidence_file="/verif/evidence/%s.json" % pid,
            replay_cmd_template="./check %s --replay {path}" % pid,
            engine="zv",
            level_claimed=dict(category=c.get("category", "exploration"), text=c["text"], design_ref=c["ref"]),
            level_note=c["note"],
            technique=c["technique"],
        ))
    man = dict(
        version=1,
        setup_cmd="./setup.sh",
        hooks=dict(
            guard="none (no source hooks: all instrumentation is external - LD_PRELOAD clock shim, PATH git shim, probe crate linking /repo as a library)",
            enable="./setup.sh builds /repo's working tree unmodified (cargo build --release --offline in /verif/probe, which compiles /repo/src/main.rs and the zerv lib)",
            baseline_off_cmd="cd /repo && cargo test --workspace --no-fail-fast --offline",
            source_commits=[],
            add_only=True,
        ),
        engines=[dict(name="zv", path="/verif/zv", serves_properties=sorted(CHECKS),
                      kind_free_text="Python monitors with independent reference oracles observing the real zerv binary (subprocess) and the real "
                                     "zerv library (in-process Rust probe over JSON lines); clock and git controlled by external shims")],
        checks=checks,
        notes="See DESIGN.md. Exit codes: 0 held, 1 VIOLATION, 2 inconclusive (never on the unchanged tree).",
        not_applicable=na,
    )
    with open(os.path.join(VERIF, "MANIFEST.json"), "w") as f:
        json.dump(man, f, indent=1)
        f.write("\n")


if __name__ == "__main__":
    main()
