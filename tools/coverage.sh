#!/bin/sh
# usage: tools/coverage.sh [check ids...]   (default: all 18, quick tier)
# Informational, not a registered check: builds an instrumented copy of /repo's working tree (nightly, -Cinstrument-coverage) in a
# scratch cache under /tmp, runs the quick checks against it with evidence redirected to scratch, and lists the lines of /repo/src
# that no monitor workload reached. A line nobody executes is a place where a change cannot be seen: the list drives workload extensions.
cd "$(dirname "$0")/.."
S=/tmp/zvcov; rm -rf $S/prof $S/evidence; mkdir -p $S/prof $S/evidence
export ZERV_VERIF_CACHE=$S/cache ZERV_VERIF_RUSTFLAGS="-Cinstrument-coverage" ZERV_VERIF_TOOLCHAIN=nightly
export ZERV_VERIF_EVIDENCE=$S/evidence ZERV_VERIF_PROFILE="$S/prof/z-%16m.profraw" LLVM_PROFILE_FILE="$S/prof/h-%16m.profraw"
BIN=$HOME/.rustup/toolchains/nightly-x86_64-unknown-linux-gnu/lib/rustlib/x86_64-unknown-linux-gnu/bin
python3 -m zv.build | tail -1 || exit 2
[ $# -eq 0 ] && set -- C01 C02 C03 C04 C05 C06 C07 C08 C09 C10 C11 C12 C13 C14 C15 C16 C17 C18
for c in "$@"; do ./check $c --tier quick 2>&1 | grep -E '^\[C|VIOLATION|INCONCLUSIVE' | tail -2; done
$BIN/llvm-profdata merge -sparse $S/prof/*.profraw -o $S/all.profdata || exit 2
H=$(python3 -c "from zv import build; print(build.tree_hash())")
OBJ="$S/cache/bin/$H/zerv -object $S/cache/bin/$H/zerv-probe"
$BIN/llvm-cov report $OBJ -instr-profile=$S/all.profdata --ignore-filename-regex='(/\.cargo/|/rustc/|/verif/|test_utils|/tests?/)' > $S/report.txt
$BIN/llvm-cov export $OBJ -instr-profile=$S/all.profdata -format=lcov --ignore-filename-regex='(/\.cargo/|/rustc/|/verif/|test_utils)' > $S/all.lcov
python3 tools/cov_uncovered.py $S/all.lcov > $S/uncovered.txt
tail -1 $S/report.txt; echo "per-file report: $S/report.txt ; uncovered lines outside #[cfg(test)]: $S/uncovered.txt"
