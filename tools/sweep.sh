#!/bin/sh
# usage: tools/sweep.sh <tier> <seed>...   - runs all 18 checks at each seed, prints one line per run (for background sweeps via `vp run`)
cd "$(dirname "$0")/.."
TIER="$1"; shift
./setup.sh >/dev/null 2>&1 || { echo "SETUP FAILED"; exit 2; }
for s in "$@"; do
  for i in 01 02 03 04 05 06 07 08 09 10 11 12 13 14 15 16 17 18; do
    VERIF_SEED=$s nice -n 5 ./check C$i --tier "$TIER" > .sweep.log 2>&1; rc=$?
    echo "seed=$s C$i rc=$rc $(grep -c '^VIOLATION' .sweep.log) violations; $(grep -E '^\[C' .sweep.log | tail -1)"
    [ $rc -ne 0 ] && { grep -E 'VIOLATION|INCONCLUSIVE|signature' .sweep.log | head -20; cp .sweep.log sweep-fail-$s-C$i.log; }
  done
done
exit 0
