#!/usr/bin/env python3
"""Runs the registered quick checks against every seeded change in /verif/seeded.

For each seeded/<id>/patch.diff: git -C /repo apply, run the property's own check (and the
related ones given on the command line or in RELATED), git -C /repo checkout -- . afterwards.
Writes /verif/seeded/RESULTS.json and updates each meta.json (`detected_by`).

usage: tools/eval_seeded.py [ids...]        (default: all; the documented procedure: patch /repo, check, revert)
       tools/eval_seeded.py --parallel 4 [ids...]   (same, but in 4 scratch worktrees of /repo under /tmp/zv-eval, removed afterwards)
       EVAL_TIER=thorough tools/eval_seeded.py C02-A
"""
import json
import os
import re
import subprocess
import sys
import time

VERIF = os.path.dirname(os.path.dirname(os.path.abspath(__file__)))
REPO = "/repo"
SEEDED = os.path.join(VERIF, os.environ.get("EVAL_DIR", "seeded"))   # EVAL_DIR=benign: the property-preserving changes (expected: every check silent)
ALL = ["C%02d" % i for i in range(1, 19)]
RELATED = {
    "C01": ["C01", "C16", "C06"], "C02": ["C02"], "C03": ["C03", "C02"], "C04": ["C04"], "C05": ["C05"], "C06": ["C06"], "C07": ["C07"],
    "C08": ["C08"], "C09": ["C09"], "C10": ["C10"], "C11": ["C11"], "C12": ["C12"], "C13": ["C13", "C15"], "C14": ["C14", "C15"],
    "C15": ["C15", "C14"], "C16": ["C16", "C15"], "C17": ["C17", "C06"], "C18": ["C18"],
}


def sh(cmd, **kw):
    return subprocess.run(cmd, shell=True, capture_output=True, text=True, **kw)


def eval_one(sid, repo, tier, seed, extra_env):
    """apply seeded/<sid>/patch.diff to `repo`, run the related checks, revert; returns (result row, meta update)"""
    d = os.path.join(SEEDED, sid)
    meta = json.load(open(os.path.join(d, "meta.json")))
    prop = meta["property"]
    a = sh("git -C %s apply %s" % (repo, os.path.join(d, "patch.diff")))
    if a.returncode != 0:
        return sid, dict(error="patch does not apply: %s" % a.stderr.strip()[:200]), None
    try:
        row = {}
        for chk in (ALL if os.environ.get("EVAL_CHECKS") == "all" else RELATED.get(prop, [prop])):
            t0 = time.time()
            r = sh("./check %s --tier %s" % (chk, tier), cwd=VERIF, env=dict(os.environ, VERIF_SEED=seed, **extra_env))
            sigs = re.findall(r"violation signatures: (\{.*\})", r.stdout)
            nviol = len(re.findall(r"^VIOLATION ", r.stdout, re.M))
            row[chk] = dict(rc=r.returncode, violations_printed=nviol, signatures=json.loads(sigs[0]) if sigs else {}, wall_s=round(time.time() - t0, 1))
            first = re.search(r"^  signature=(.*)$", r.stdout, re.M)
            if first:
                row[chk]["first"] = first.group(1)[:400]
        res = dict(tier=tier, seed=int(seed), checks=row, detected=any(v["rc"] == 1 for v in row.values()), inconclusive=sorted(k for k, v in row.items() if v["rc"] not in (0, 1)),
                   detected_by_own_check=row.get(prop, {}).get("rc") == 1, repo=repo)
        meta["detected_by"] = sorted(k for k, v in row.items() if v["rc"] == 1)
        meta["evaluation"] = dict(tier=tier, seed=int(seed), ran="git -C %s apply seeded/%s/patch.diff; ./check <id> --tier %s; git -C %s checkout -- ." % (repo, sid, tier, repo),
                                  outcome={k: dict(rc=v["rc"], signatures=v["signatures"]) for k, v in row.items()})
        return sid, res, meta
    finally:
        sh("git -C %s checkout -- ." % repo)


def main_parallel(ids, n, tier, seed):
    """same evaluation in n scratch worktrees of /repo (ZERV_VERIF_REPO / _CACHE / _EVIDENCE point the framework at them)"""
    import concurrent.futures
    import queue
    import shutil
    base = "/tmp/zv-eval"
    shutil.rmtree(base, ignore_errors=True)
    os.makedirs(base)
    slots = queue.Queue()
    for i in range(n):
        wt = os.path.join(base, "w%d" % i)
        r = sh("git -C %s worktree add --detach %s HEAD" % (REPO, wt))
        if r.returncode != 0:
            print("cannot create worktree: %s" % r.stderr)
            return 2
        slots.put((wt, dict(ZERV_VERIF_REPO=wt, ZERV_VERIF_CACHE=os.path.join(base, "c%d" % i), ZERV_VERIF_EVIDENCE=os.path.join(base, "e%d" % i))))
    res_path = os.environ.get("EVAL_OUT") or os.path.join(SEEDED, "RESULTS.json")   # EVAL_OUT: side run (other seed/tier), meta.json untouched
    side = bool(os.environ.get("EVAL_OUT"))
    results = json.load(open(res_path)) if os.path.exists(res_path) else {}

    def job(sid):
        wt, env = slots.get()
        try:
            return eval_one(sid, wt, tier, seed, env)
        finally:
            slots.put((wt, env))
    try:
        with concurrent.futures.ThreadPoolExecutor(n) as ex:
            for sid, res, meta in ex.map(job, ids):
                results[sid] = res
                if meta is not None and not side:
                    json.dump(meta, open(os.path.join(SEEDED, sid, "meta.json"), "w"), indent=1, ensure_ascii=False)
                print("%s  %s" % (sid, {k: (v["rc"], v["signatures"]) for k, v in res.get("checks", {}).items()} or res))
                sys.stdout.flush()
                json.dump(results, open(res_path, "w"), indent=1, sort_keys=True)
    finally:
        for i in range(n):
            sh("git -C %s worktree remove --force %s" % (REPO, os.path.join(base, "w%d" % i)))
        sh("git -C %s worktree prune" % REPO)
        shutil.rmtree(base, ignore_errors=True)
    missed = [k for k in ids if not results.get(k, {}).get("detected")]
    own = [k for k in ids if not results.get(k, {}).get("detected_by_own_check")]
    print("evaluated %d, not detected: %s ; not detected by own check: %s" % (len(ids), missed, own))
    return 0


def main():
    if "--parallel" in sys.argv:
        i = sys.argv.index("--parallel")
        n = int(sys.argv[i + 1])
        del sys.argv[i:i + 2]
        ids = sys.argv[1:] or sorted(d for d in os.listdir(SEEDED) if os.path.isdir(os.path.join(SEEDED, d)))
        return main_parallel(ids, n, os.environ.get("EVAL_TIER", "quick"), os.environ.get("VERIF_SEED", "0"))
    ids = sys.argv[1:] or sorted(d for d in os.listdir(SEEDED) if os.path.isdir(os.path.join(SEEDED, d)))
    tier = os.environ.get("EVAL_TIER", "quick")
    seed = os.environ.get("VERIF_SEED", "0")
    if sh("git -C %s status --porcelain --untracked-files=no" % REPO).stdout.strip():
        print("refusing: /repo has uncommitted changes")
        return 2
    res_path = os.path.join(SEEDED, "RESULTS.json")
    results = json.load(open(res_path)) if os.path.exists(res_path) else {}
    for sid in ids:
        d = os.path.join(SEEDED, sid)
        meta = json.load(open(os.path.join(d, "meta.json")))
        prop = meta["property"]
        a = sh("git -C %s apply %s" % (REPO, os.path.join(d, "patch.diff")))
        if a.returncode != 0:
            print("%s: patch does not apply: %s" % (sid, a.stderr.strip()[:200]))
            results[sid] = dict(error="patch does not apply")
            continue
        try:
            row = {}
            for chk in RELATED.get(prop, [prop]):
                t0 = time.time()
                r = sh("./check %s --tier %s" % (chk, tier), cwd=VERIF, env=dict(os.environ, VERIF_SEED=seed))
                sigs = re.findall(r"violation signatures: (\{.*\})", r.stdout)
                nviol = len(re.findall(r"^VIOLATION ", r.stdout, re.M))
                row[chk] = dict(rc=r.returncode, violations_printed=nviol, signatures=json.loads(sigs[0]) if sigs else {}, wall_s=round(time.time() - t0, 1))
                first = re.search(r"^  signature=(.*)$", r.stdout, re.M)
                if first:
                    row[chk]["first"] = first.group(1)[:400]
                print("%s  %s rc=%d %s" % (sid, chk, r.returncode, json.dumps(row[chk]["signatures"])))
                sys.stdout.flush()
            results[sid] = dict(tier=tier, seed=int(seed), checks=row, detected=any(v["rc"] == 1 for v in row.values()),
                                detected_by_own_check=row.get(prop, {}).get("rc") == 1)
            meta["detected_by"] = sorted(k for k, v in row.items() if v["rc"] == 1)
            meta["evaluation"] = dict(tier=tier, seed=int(seed), ran="git -C /repo apply seeded/%s/patch.diff; ./check <id> --tier %s; git -C /repo checkout -- ." % (sid, tier),
                                      outcome={k: dict(rc=v["rc"], signatures=v["signatures"]) for k, v in row.items()})
            json.dump(meta, open(os.path.join(d, "meta.json"), "w"), indent=1, ensure_ascii=False)
        finally:
            sh("git -C %s checkout -- ." % REPO)
        json.dump(results, open(res_path, "w"), indent=1, sort_keys=True)
    missed = [k for k, v in results.items() if not v.get("detected")]
    print("evaluated %d, not detected: %s" % (len(ids), missed))
    return 0


if __name__ == "__main__":
    sys.exit(main())
