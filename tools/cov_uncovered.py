#!/usr/bin/env python3
"""lcov -> uncovered line ranges per source file of /repo/src, skipping everything from the first `#[cfg(test)]` of a file on."""
import sys, os, collections
cur = None; un = collections.defaultdict(list); tot = collections.Counter(); hit = collections.Counter()
for l in open(sys.argv[1]):
    l = l.strip()
    if l.startswith("SF:"): cur = l[3:]
    elif l.startswith("DA:") and cur and "/src/" in cur:
        n, c = l[3:].split(",")[:2]; n = int(n); tot[cur] += 1
        if int(c) == 0: un[cur].append(n)
        else: hit[cur] += 1
for f in sorted(un):
    try: src = open(f).read().split("\n")
    except OSError: continue
    cut = next((i + 1 for i, t in enumerate(src) if t.strip().startswith("#[cfg(test)]")), len(src) + 1)
    lines = [n for n in un[f] if n < cut]
    if not lines: continue
    rs = []; a = b = lines[0]
    for n in lines[1:]:
        if n == b + 1: b = n
        else: rs.append((a, b)); a = b = n
    rs.append((a, b))
    print("## %s  (%d uncovered production lines)" % (f.split("/src/", 1)[1], len(lines)))
    for a, b in rs:
        for n in range(a, b + 1): print("%5d| %s" % (n, src[n - 1][:150]))
        print("     ---")
