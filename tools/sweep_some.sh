#!/bin/sh
# usage: tools/sweep_some.sh <tier> <seed> <check ids...>
cd "$(dirname "$0")/.."
TIER="$1"; S="$2"; shift; shift
./setup.sh >/dev/null 2>&1 || { echo "SETUP FAILED"; exit 2; }
for c in "$@"; do
  VERIF_SEED=$S nice -n 5 ./check $c --tier "$TIER" > .sweep.log 2>&1; rc=$?
  echo "seed=$S $c rc=$rc $(grep -c '^VIOLATION' .sweep.log) violations; $(grep -E '^\[C' .sweep.log | tail -1)"
  [ $rc -ne 0 ] && { grep -E 'VIOLATION|INCONCLUSIVE|signature' .sweep.log | head -20; cp .sweep.log sweep-fail-$S-$c.log; }
done
exit 0
