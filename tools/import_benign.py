#!/usr/bin/env python3
"""Copies confirmed property-preserving changes from /tmp/wt/out/B<n>/<X>/ into /verif/benign/B<n>-<X>/ with a meta.json.
These are the false-alarm test of the framework: behaviour changes written by sub-agents that keep all 18 properties;
tools/eval_seeded.py with EVAL_DIR=benign EVAL_CHECKS=all runs every quick check against each and expects silence."""
import json, os, re, shutil
SRC, DST = "/tmp/wt/out", "/verif/benign"
for area in sorted(os.listdir(SRC)):
    if not re.fullmatch(r"B\d", area):
        continue
    for x in "ABCD":
        d = os.path.join(SRC, area, x)
        if not os.path.exists(os.path.join(d, "patch.diff")):
            continue
        sid = "%s-%s" % (area, x)
        out = os.path.join(DST, sid)
        os.makedirs(out, exist_ok=True)
        for f in ("patch.diff", "demo.sh", "notes.md"):
            shutil.copy(os.path.join(d, f), os.path.join(out, f))
        notes = open(os.path.join(d, "notes.md")).read()
        m = re.match(r"NEAREST-PROPERTY:\s*(C\d\d)", notes)
        files = re.findall(r"^\+\+\+ b/(\S+)", open(os.path.join(d, "patch.diff")).read(), re.M)
        mp = os.path.join(out, "meta.json")
        meta = json.load(open(mp)) if os.path.exists(mp) else {}
        meta.update(dict(id=sid, property=m.group(1) if m else "C13", kind="property-preserving behaviour change (expected: every check silent)", files_changed=files,
                         origin="independent sub-agent given the 18 property texts, a scratch worktree and one source area; asked for observable behaviour changes that keep every property",
                         argument=notes.strip()[:2500],
                         confirmed=dict(how="tools/confirm_mutant.sh in scratch worktree /tmp/wt/base at /repo HEAD: patch applies, builds, demo.sh tells old from new behaviour, pinned suite passes", result="confirmed")))
        json.dump(meta, open(mp, "w"), indent=1, ensure_ascii=False)
        print(sid, meta["property"], files)
