#!/bin/sh
# usage: confirm_mutant.sh <dir with patch.diff and demo.sh> [scratch worktree]
# Confirms in a scratch worktree (never /repo): patch applies, builds, pinned suite passes, demo fails with it and passes without.
D="$1"; WT="${2:-/tmp/wt/base}"
set -u
cd "$WT" || exit 2
git checkout -q -- . ; git clean -qfd -e target -e ".*.log"
git apply --check "$D/patch.diff" || { echo "CONFIRM: patch does not apply"; exit 1; }
export CARGO_NET_OFFLINE=true
cargo build --offline -q 2>/dev/null || { echo "CONFIRM: base build failed"; exit 1; }
chmod +x "$D/demo.sh"
if "$D/demo.sh" "$WT" >$WT/.demo_base.log 2>&1; then echo "CONFIRM: demo passes on unmodified tree: ok"; else echo "CONFIRM: demo FAILS on unmodified tree (bad demo)"; tail -5 $WT/.demo_base.log; fi
git apply "$D/patch.diff"
if cargo build --offline -q 2>$WT/.build.log; then echo "CONFIRM: builds with patch: ok"; else echo "CONFIRM: build FAILED with patch"; tail -20 $WT/.build.log; git checkout -q -- .; exit 1; fi
if "$D/demo.sh" "$WT" >$WT/.demo_mut.log 2>&1; then echo "CONFIRM: demo PASSES with patch (mutant not demonstrated)"; else echo "CONFIRM: demo fails with patch: ok"; tail -4 $WT/.demo_mut.log; fi
/verif/tools/run_pinned_suite.sh "$WT" | head -20
git checkout -q -- . ; git clean -qfd -e target -e ".*.log"
