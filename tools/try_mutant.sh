#!/bin/sh
# usage: try_mutant.sh <patch.diff> <check id> [more ids]   -- applies the patch to /repo, runs the quick checks, reverts.
P="$1"; shift
cd /repo || exit 2
if [ -n "$(git status --porcelain --untracked-files=no)" ]; then echo "TRY: /repo not clean"; exit 2; fi
git apply "$P" || { echo "TRY: patch does not apply to /repo"; exit 2; }
trap 'cd /repo && git checkout -q -- . ' EXIT INT TERM
cd /verif
for id in "$@"; do
  OUT=$(VERIF_SEED=${VERIF_SEED:-0} ./check "$id" --tier ${TIER:-quick} 2>&1)
  RC=$?
  NV=$(printf '%s\n' "$OUT" | grep -c '^VIOLATION')
  echo "TRY: $id rc=$RC violations_printed=$NV"
  printf '%s\n' "$OUT" | grep -A1 '^VIOLATION' | grep -v '^--' | head -${SHOW:-6}
  printf '%s\n' "$OUT" | grep 'violation signatures\|INCONCLUSIVE\|held on' | head -3
done
