#!/usr/bin/env python3
"""Copies confirmed mutants from /tmp/wt/out/<prop>/<X>/ into /verif/seeded/<prop>-<X>/ with a meta.json."""
import json, os, shutil, sys, re
SRC = "/tmp/wt/out"
DST = "/verif/seeded"
log = open("/tmp/wt/confirm_all.log").read() if os.path.exists("/tmp/wt/confirm_all.log") else ""
for prop in sorted(os.listdir(SRC)):
    for x in ("A", "B"):
        d = os.path.join(SRC, prop, x)
        if not os.path.exists(os.path.join(d, "patch.diff")):
            continue
        sid = "%s-%s" % (prop, x)
        out = os.path.join(DST, sid)
        os.makedirs(out, exist_ok=True)
        for f in ("patch.diff", "demo.sh", "notes.md"):
            if os.path.exists(os.path.join(d, f)):
                shutil.copy(os.path.join(d, f), os.path.join(out, f))
        notes = open(os.path.join(d, "notes.md")).read() if os.path.exists(os.path.join(d, "notes.md")) else ""
        files = re.findall(r"^\+\+\+ b/(\S+)", open(os.path.join(d, "patch.diff")).read(), re.M)
        meta_path = os.path.join(out, "meta.json")
        meta = json.load(open(meta_path)) if os.path.exists(meta_path) else {}
        meta.update(dict(
            id=sid, property=prop, files_changed=files,
            origin="independent sub-agent given only the property text and a scratch worktree",
            needs_to_manifest=notes.strip()[:1500],
            confirmed=dict(
                how="tools/confirm_mutant.sh in scratch worktree /tmp/wt/base at /repo HEAD: patch applies, `cargo build --offline` ok, "
                    "demo.sh exits non-zero with the patch and 0 without, pinned suite (3177 tests, cargo nextest, junit compared with BASELINE.json) passes with the patch",
                result="confirmed"),
        ))
        json.dump(meta, open(meta_path, "w"), indent=1, ensure_ascii=False)
        print(sid, files)
