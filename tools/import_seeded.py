#!/usr/bin/env python3
"""Copies confirmed mutants from /tmp/wt/out/<prop>/<X>/ into /verif/seeded/<prop>-<X>/ with a meta.json."""
import json, os, shutil, sys, re
SRC = "/tmp/wt/out"
DST = "/verif/seeded"
OWN_PROPS = {"OWN-git-count-first-parent": "C02", "OWN-git-status-uno": "C02", "OWN-git-author-time": "C02", "OWN-git-tag-time-tagger": "C02",
             "OWN-git-max-over-all-reachable": "C02", "OWN-ron-skip-none-post": "C12", "OWN-stdin-skip-validation": "C12", "OWN-println-before-error": "C13",
             "OWN-dev-timestamp-local-now": "C14", "OWN-python-wrong-flag": "C18", "OWN-sanitize-keep-double-separator": "C16"}
DROPPED = {"C07-A": "mutated the local-segment range check that fix 35b8d11 removed; no longer applies",
           "OWN-ron-skip-none-post": "equivalent: the object still round-trips, C12 is not broken"}
log = open("/tmp/wt/confirm_all.log").read() if os.path.exists("/tmp/wt/confirm_all.log") else ""
for prop in sorted(os.listdir(SRC)):
    if not os.path.isdir(os.path.join(SRC, prop)) or re.fullmatch(r"B\d", prop):      # B<n> are the property-preserving changes (tools/import_benign.py)
        continue
    labels = ("A", "B", "C", "D", "E", "F", "G", "H") if prop != "OWN" else sorted(os.listdir(os.path.join(SRC, prop)))
    for x in labels:
        d = os.path.join(SRC, prop, x)
        if not os.path.exists(os.path.join(d, "patch.diff")):
            continue
        sid = "%s-%s" % (prop, x)
        if sid in DROPPED:
            continue
        if prop == "OWN" and sid not in OWN_PROPS:
            continue
        out = os.path.join(DST, sid)
        os.makedirs(out, exist_ok=True)
        for f in ("patch.diff", "demo.sh", "notes.md"):
            # never overwrite what is already in /verif/seeded: patches there may have been rebased onto later repairs of /repo
            if os.path.exists(os.path.join(d, f)) and not os.path.exists(os.path.join(out, f)):
                shutil.copy(os.path.join(d, f), os.path.join(out, f))
        notes = open(os.path.join(d, "notes.md")).read() if os.path.exists(os.path.join(d, "notes.md")) else ""
        area = re.match(r"PROPERTY:\s*(C\d\d)", notes) if re.fullmatch(r"[XAR]\d", prop) else None
        files = re.findall(r"^\+\+\+ b/(\S+)", open(os.path.join(d, "patch.diff")).read(), re.M)
        meta_path = os.path.join(out, "meta.json")
        meta = json.load(open(meta_path)) if os.path.exists(meta_path) else {}
        meta.update(dict(
            id=sid, property=area.group(1) if area else OWN_PROPS.get(sid, prop), files_changed=files,
            origin=("change from the design's own list of planned breaks (DESIGN §6), implemented and test-suite-checked by a sub-agent that saw only the change description"
                    if prop == "OWN" else "white-box adversary: sub-agent that could read the monitors and run them against its scratch worktree, asked for a realistic breaking change that the property's own check misses at seeds 0 and 1" if re.fullmatch(r"[AR]\d", prop)
                    else "independent sub-agent given the 18 property texts, a scratch worktree and one source area to change (any property)" if prop.startswith("X")
                    else "independent sub-agent given only the property text and a scratch worktree"),
            needs_to_manifest=notes.strip()[:1500],
            confirmed=dict(
                how="tools/confirm_mutant.sh in scratch worktree /tmp/wt/base at /repo HEAD: patch applies, `cargo build --offline` ok, "
                    "demo.sh exits non-zero with the patch and 0 without, pinned suite (3177 tests, cargo nextest, junit compared with BASELINE.json) passes with the patch",
                result="confirmed"),
        ))
        json.dump(meta, open(meta_path, "w"), indent=1, ensure_ascii=False)
        print(sid, files)
