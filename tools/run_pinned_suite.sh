#!/bin/sh
# usage: run_tests.sh <worktree>   -> prints "PINNED-SUITE: OK" or the pinned tests that no longer pass (exit 1)
WT="$1"
cd "$WT" || exit 2
export CARGO_NET_OFFLINE=true
LOG=$(mktemp)
rm -f target/nextest/pb/junit.xml
cargo nextest run --workspace --no-fail-fast --tool-config-file pb:/w/lib/nextest.toml --profile pb --test-threads 8 --offline > "$LOG" 2>&1
python3 - "$LOG" "$WT" <<'PY'
import json, sys, glob, os
sys.path.insert(0, '/w/lib')
import parse_tests
base = set(json.load(open('/root/.vp/BASELINE.json'))['stable_pass'])
files = glob.glob(os.path.join(sys.argv[2], 'target/nextest/pb/junit.xml'))
txt = open(sys.argv[1]).read()
if not files:
    print('PINNED-SUITE: BUILD FAILED or no junit produced'); print(txt[-4000:]); sys.exit(1)
passed, failed, other, _ = parse_tests.parse_junit(files)
missing = sorted(t for t in base if t not in passed)
if missing:
    print('PINNED-SUITE: %d pinned tests no longer pass:' % len(missing))
    for t in missing[:60]: print('  ', t)
    sys.exit(1)
print('PINNED-SUITE: OK (%d pinned tests pass)' % len(base))
PY
RC=$?
rm -f "$LOG"
exit $RC
