#!/usr/bin/env python3
"""Regenerates the seeded-change table in DESIGN.md (§12) from seeded/*/meta.json and RESULTS.json."""
import json, os, re
V = os.path.dirname(os.path.dirname(os.path.abspath(__file__)))
res = json.load(open(os.path.join(V, "seeded", "RESULTS.json")))
rows = ["| id | property | files | what it needs to manifest (short) | own check | other checks that fire | first signature |", "|---|---|---|---|---|---|---|"]
for sid in sorted(res):
    meta = json.load(open(os.path.join(V, "seeded", sid, "meta.json")))
    r = res[sid]
    if "checks" not in r:
        continue
    prop = meta["property"]
    own = r["checks"].get(prop, {})
    own_s = "**fires** (%s)" % ", ".join("%s x%d" % kv for kv in sorted(own.get("signatures", {}).items())[:3]) if own.get("rc") == 1 else "silent"
    others = [k for k, v in r["checks"].items() if k != prop and v["rc"] == 1]
    short = meta.get("short") or re.sub(r"\s+", " ", meta.get("needs_to_manifest", ""))[:160]
    rows.append("| %s | %s | %s | %s | %s | %s | %s |" % (sid, prop, ", ".join(os.path.basename(f) for f in meta["files_changed"]), short.replace("|", "/"), own_s,
                                                    ", ".join(others) or "-", (own.get("first") or "").split("  ")[0].replace("|", "/")[:60]))
table = "\n".join(rows)
p = os.path.join(V, "DESIGN.md")
s = open(p).read()
if "SEEDED_TABLE_PLACEHOLDER" in s:
    s = s.replace("SEEDED_TABLE_PLACEHOLDER", "<!-- seeded-table-begin -->\n" + table + "\n<!-- seeded-table-end -->")
else:
    s = re.sub(r"<!-- seeded-table-begin -->.*<!-- seeded-table-end -->", lambda m: "<!-- seeded-table-begin -->\n" + table + "\n<!-- seeded-table-end -->", s, flags=re.S)
open(p, "w").write(s)
print(table)
