#!/usr/bin/env python3
"""Maintains /verif/known_findings.json (edited by hand through this table; never written by a check)."""
import json
import os

VERIF = os.path.dirname(os.path.dirname(os.path.abspath(__file__)))

FIXED = [
    # (properties, key, commit, what failed)
    (["C08"], "unicode-digit-in-semver", "6f340fe", "check --format semver '1.2.3-٣a' was accepted (regex \\d is Unicode)"),
    (["C08", "C07"], "semver-numeric-overflow-to-zero", "545d70d", "'1.2.3-99999999999999999999999' parsed as '1.2.3-0'; '1.2.3+18446744073709551616' printed '1.2.3+0'"),
    (["C09"], "pep440-unicode-casefold", "d2c00ca", "'1.0+ſ', '1.0poſt1', '1.0+K' (Kelvin sign) accepted as PEP 440"),
    (["C09", "C07"], "pep440-overflow-to-zero", "b25cab7", "'99999999999.0' -> '0.0', '1.0a99999999999' -> '1.0a0', '1.0+99999999999' -> '1.0+0'"),
    (["C01", "C09"], "own-check-rejects-output", "35b8d11", "zerv printed '1.0+20260921141320' (14-digit local segment) and `zerv check --format pep440` then rejected it (follow-up to b25cab7: local numeric segments above u32 are now kept verbatim)"),
    (["C16", "C01", "C06", "C15"], "sanitize-non-ascii", "04eaa6e", "--bumped-branch 'fé/日本-x' rendered '1.2.3+fé.日本.x'; Unicode lower-casing mapped İ/K to ASCII letters"),
    (["C16", "C13", "C15"], "panic@src/utils/sanitize.rs", "2bb85a8", "sanitize(value='ééééé', max_length=3) panicked (String::truncate off a char boundary)"),
    (["C16"], "sanitize-leading-zero-after-truncation", "a5e9ed9", "sanitize('00a', max_length=2) = '00' (leading-zero digit segment, not idempotent)"),
    (["C16", "C15"], "sanitize-mismatch (piece of a multi-character separator kept)", "19afd58", "sanitize(value='ab--cd', separator='--', max_length=3) = 'ab-'; sanitize('é0a', separator='--', max_length=1) = '-' (not runs joined by whole separators, not idempotent)"),
    (["C14", "C02"], "environment-changes-output (user git configuration)", "822bc26", "~/.gitconfig with column.ui=always: 'No version tags are reachable from HEAD' on a commit with several tags; tag.sort=-version:refname: '30.3.0' instead of '30.3'; status.showUntrackedFiles=no: untracked file not dirty"),
    (["C12"], "emitted-object-does-not-parse (custom JSON nested 63..127 levels)", "3cfec78", "zerv version --source none --tag-version 1.2.3 --custom <JSON object nested 63 levels> --output-format zerv is emitted with exit 0 but --source stdin answers 'Exceeded recursion limit' (direct rendering prints 1.2.3)"),
    (["C18"], "return-value-differs (carriage return translated)", "55136a7", "zerv.render('2!1.0.post1', output_template='a\rb') returned 'a\nb', the command line prints 'a\rb' (subprocess text mode)"),
    (["C15"], "function-ignores-argument", "799838d", "hash_int(value=bumped_branch, length='3') returned 7 characters; prefix(value=x, length=-1) returned 10; sanitize(max_length=4.0) did not cut (ill-typed length silently replaced by the default)"),
    (["C11"], "pep440-order-differs (numeric local part above u32)", "4178de6", "cmp('0rc0.dev0+5000000000', '0rc0.dev0+10000000000') = Greater: all-digit local parts above u32 were kept as text (fix 35b8d11) and compared as text"),
    (["C15", "C07"], "template-pep440-differs (numbers above u32)", "7662a0a", "--output-format pep440 refuses post = 4294967296 but --output-template '{{ pep440 }}' printed '1.2.3rc0' / '4294967295!11506.2a26957+5000000000...' (the range check of 369acaa covered the formatter only)"),
    (["C17", "C06"], "timestamp-field-differs (year 10000 and later, values above i64)", "2b0839f", "resolve_timestamp('YYYY', 275672913501) = '+10705'; --bumped-timestamp 253402300800 --schema calver printed '1.1.3-10000'; bumped_timestamp 2^64-1 resolved to 1969-12-31"),
    (["C02"], "tag-commit-hash-differs / valid-tag-not-found (path named like a ref)", "285787a", "a committed file or directory named like the base tag: tag commit hash reported as None; a tracked file named HEAD: 'No commits found in git repository' (git: 'ambiguous argument: both revision and filename')"),
    (["C13"], "panic@library/std/src/env.rs", "79a9ee3", "an argument that is not valid UTF-8 (`zerv check $'a\\xffb'`, `--bumped-branch $'\\xff'`) panicked in std::env::args() (exit 101)"),
    (["C13", "C15"], "panic@src/cli/utils/template/functions.rs:prefix", "c28a0f0", "prefix(value='ééééé', length=3) panicked (byte slice)"),
    (["C13", "C15"], "panic@src/cli/utils/template/functions.rs:format_timestamp", "af6e9ec", "format_timestamp(value=.., format='%Q') panicked (chrono Display error)"),
    (["C13", "C15"], "panic@src/cli/utils/template/functions.rs:hash_int", "b434023", "hash_int(value=.., length=1000000, allow_leading_zero=true) panicked (format width)"),
    (["C13", "C06", "C01"], "panic@src/version/zerv/vars.rs", "cbd1768", "non-ASCII commit hash crossing byte 8 panicked (h[..8])"),
    (["C13", "C07"], "panic@src/version/semver/to_zerv.rs", "4919ed8", "render '1.0.0-post.x.post.1' / '1.0.0-post.post.post' / '1.0.0-dev.x.dev.1' panicked (expect in From<SemVer> for Zerv)"),
    (["C07", "C06", "C03"], "u32-narrowing-in-render", "4101289", "render 5000000000.1.2 -> '1.2.0-5000000000' (SemVer side: component values parsed as u32)"),
    (["C05"], "bump-overflow-wraps", "afc7b0d", "--tag-version 18446744073709551615.0.0 --bump-major wrapped to 0 in release builds (panicked in debug)"),
    (["C04"], "flow-wildcard-without-slash", "f2baf7c", "branch 'releasex/3' / 'release-3' matched rule 'release/*' and got rc.3"),
    (["C07"], "u32-narrowing-in-render-pep440", "369acaa", "render 1.0.0-alpha.5000000000 --output-format pep440 -> '1.0.0a0'; post/dev/epoch above u32 vanished; 5000000000.1.2 -> '1.2+5000000000'"),
]

KNOWN = [
    # (property, key, what)   -- genuine defects recorded instead of repaired
    ("C01", "semver-emits-numeric-identifier-above-u64",
     "a run of 20+ digits in free text (e.g. branch '1010...10/x' or a custom value) is emitted as a numeric pre-release identifier above u64: "
     "valid SemVer 2.0.0 by grammar, but `zerv check --format semver` (and every u64-based SemVer parser) rejects it"),
    ("C13", "abort-stack-overflow-in-template-parser",
     "an --output-template of tens of thousands of nested parentheses or chained operators (e.g. '{{ ' + '('*20000 + '1' + ')'*20000 + ' }}', "
     "'{{ 1' + ' + 1'*30000 + ' }}') aborts zerv with a stack overflow (SIGABRT) inside the Tera template parser, which has no depth limit"),
    ("C13", "panic-in-tera-builtin-get_random",
     "--output-template '{{ get_random(start=5, end=1) }}' / '{{ get_random(end=0) }}': Tera's built-in get_random panics inside the rand crate "
     "('cannot sample empty range', exit 101); third-party built-in, reachable through every --output-template"),
    ("C13", "panic-in-tera-builtin-date",
     "--output-template '{{ 99999999999999 | date }}' (or `bumped_timestamp | date` with --bumped-timestamp 99999999999999): Tera's built-in date filter "
     "unwraps an out-of-range timestamp (tera-1.20.1 src/builtins/filters/common.rs, exit 101)"),
    ("C13", "panic-in-tera-builtin-int",
     "--output-template '{{ \"zz\" | int(base=1) }}' (any base outside 2..36): Tera's built-in int filter passes the radix to from_str_radix, which panics (exit 101)"),
    ("C13", "abort-stack-overflow-in-recursive-template-macro",
     "--output-template '{% macro a() %}{{ self::a() }}{% endmacro a %}{{ self::a() }}': a self-recursive Tera macro overflows the stack (SIGABRT); the engine has no recursion limit"),
    ("C13", "abort-memory-exhaustion-in-tera-range",
     "--output-template '{{ range(end=5, step_by=0) }}' never ends and '{% for i in range(end=10000000000) %}' materialises the whole range: Tera's built-in range "
     "allocates until the process is killed (observed as an allocation-failure abort under the harness's 8 GiB address-space ceiling)"),
    ("C02", "distance-follows-git-revlist-under-clock-skew",
     "distance is taken from `git rev-list --count <tag>..HEAD`; git's revision walk is a committer-date heuristic and over-counts when an ancestor of the "
     "tagged commit carries a later committer date than its descendants (e.g. root stamped 2023, its descendants 2016-2022: distance 4 reported, 3 commits "
     "are reachable from HEAD and not from the tag; native git gives the same 4). Exact counting needs two unlimited walks - a cost/design decision, not a small patch"),
    ("C02", "nested-annotated-tag-not-seen",
     "a version tag that is an annotated tag of another annotated tag (`git tag -a -m inner inner HEAD; git tag -a -m outer v3.0.0 inner`) is not found: "
     "`git tag --points-at <commit>` peels one level only, `git describe --tags` finds it; zerv answers exactly as if the tag did not exist "
     "(no small patch: tag discovery would have to change to a fully peeling listing such as `git show-ref --tags -d`)"),
    ("C03", "clean-prerelease-tag-with-dev-loses-dev",
     "zerv flow on a clean checkout exactly at a tag of the shape flow prints for dirty / tag-mode-ahead states (e.g. 1.2.4-rc.3.post.1.dev.1790666320, "
     "1.2.4rc3.post1.dev1790666320) prints the version without the dev part (1.2.4-rc.3.post.1): the clean-at-tag tier of the smart schemas has no dev component, "
     "so the result is not the tag and sorts above it (a repair is a schema-tier design decision)"),
    ("C04", "flow-distance-above-u32-overflow",
     "zerv flow --source stdin on an object whose distance exceeds 2^32-1 fails in commit post-mode: 'Failed to parse NNN: number too large to fit in target type' "
     "(tag post-mode works) - the post bump is passed through the same u32 bump argument as the length-10 branch hash"),
    ("C04", "flow-hash-len10-overflow",
     "zerv flow --hash-branch-len 10 fails for every branch whose 10-digit hash exceeds 2^32-1 (e.g. branches a, d, dev, master): "
     "'Failed to parse NNNNNNNNNN: number too large to fit in target type' - the documented length 10 does not work for ~57% of branch names"),
]


def main():
    out = []
    for props, key, commit, what in FIXED:
        for p in props:
            out.append(dict(property=p, key=key, status="fixed", commit=commit, what=what,
                            line="fixed: property=%s %s %s" % (p, commit, what)))
    for p, key, what in KNOWN:
        out.append(dict(property=p, key=key, status="known", what=what))
    with open(os.path.join(VERIF, "known_findings.json"), "w") as f:
        json.dump(dict(
            note="status=known entries are matched by exact signature key and reported as KNOWN-FINDING; status=fixed entries suppress nothing",
            findings=out), f, indent=1, ensure_ascii=False)
        f.write("\n")


if __name__ == "__main__":
    main()
