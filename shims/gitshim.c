/* PATH shim installed as `git`.  Appends one JSON line per invocation to
 * ZERV_VERIF_GITLOG and, when ZERV_VERIF_GIT_FAIL=<k>:<mode> names this
 * invocation (1-based count of lines already in the log + 1), fails in the
 * requested way; otherwise execs the real git (ZERV_VERIF_REAL_GIT).
 * Modes: exit128 exit1 ok-empty ok-garbage ok-utf8 ok-huge killed enoexec */
#define _GNU_SOURCE
#include <fcntl.h>
#include <signal.h>
#include <stdio.h>
#include <stdlib.h>
#include <string.h>
#include <sys/file.h>
#include <unistd.h>

static void json_str(FILE *f, const char *s) {
    fputc('"', f);
    for (; *s; s++) {
        unsigned char c = (unsigned char)*s;
        if (c == '"' || c == '\\') { fputc('\\', f); fputc(c, f); }
        else if (c < 0x20) fprintf(f, "\\u%04x", c);
        else fputc(c, f);
    }
    fputc('"', f);
}

int main(int argc, char **argv) {
    const char *real = getenv("ZERV_VERIF_REAL_GIT");
    const char *logp = getenv("ZERV_VERIF_GITLOG");
    const char *fail = getenv("ZERV_VERIF_GIT_FAIL");
    long seq = 0;
    if (logp && *logp) {
        int fd = open(logp, O_RDWR | O_APPEND | O_CREAT, 0644);
        if (fd >= 0) {
            flock(fd, LOCK_EX);
            /* count lines */
            char buf[65536]; ssize_t n; long lines = 0;
            lseek(fd, 0, SEEK_SET);
            while ((n = read(fd, buf, sizeof buf)) > 0)
                for (ssize_t i = 0; i < n; i++) if (buf[i] == '\n') lines++;
            seq = lines + 1;
            char *mem = NULL; size_t sz = 0;
            FILE *m = open_memstream(&mem, &sz);
            fprintf(m, "{\"seq\":%ld,\"argv\":[", seq);
            for (int i = 1; i < argc; i++) { if (i > 1) fputc(',', m); json_str(m, argv[i]); }
            fprintf(m, "],\"cwd\":");
            char cwd[4096]; if (!getcwd(cwd, sizeof cwd)) strcpy(cwd, "?");
            json_str(m, cwd);
            fprintf(m, "}\n");
            fclose(m);
            ssize_t w = write(fd, mem, sz); (void)w;
            free(mem);
            flock(fd, LOCK_UN);
            close(fd);
        }
    }
    if (fail && *fail) {
        long k = atol(fail);
        const char *mode = strchr(fail, ':');
        mode = mode ? mode + 1 : "exit128";
        if (k == seq || k == 0) {
            if (!strcmp(mode, "exit128")) { fprintf(stderr, "fatal: not a git repository (or any of the parent directories): .git\n"); return 128; }
            if (!strcmp(mode, "exit1")) { fprintf(stderr, "error: \xf0\x9f\x92\xa5 injected failure \xff\xfe garbage\n"); return 1; }
            if (!strncmp(mode, "exit128-long", 12)) {
                /* a long diagnostic as a localised git prints it: 0, 1 or 2 ASCII bytes ("exit128-long0/1/2"), then only three-byte characters - whatever byte
                   offset a consumer cuts at, one of the three variants has it inside a character */
                int pad = mode[12] ? mode[12] - '0' : 0;
                for (int j = 0; j < pad; j++) fputc('f', stderr);
                for (int j = 0; j < 400; j++) fputs("\xe3\x83\xaa", stderr);
                fputc('\n', stderr);
                return 128;
            }
            if (!strcmp(mode, "exit1-silent")) { return 1; }
            if (!strcmp(mode, "ok-empty")) { return 0; }
            if (!strcmp(mode, "ok-garbage")) { fputs("zz not-a-number \x01\x02\xff\xfe\n%%%\n", stdout); return 0; }
            if (!strcmp(mode, "ok-utf8")) { fputs("abcdefg\xc3\xa9\xc3\xa9\xc3\xa9\xe6\x97\xa5\xe6\x9c\xac\n\xc3\xa9\xc3\xa9\xc3\xa9\xc3\xa9\xc3\xa9\xc3\xa9\xc3\xa9\xc3\xa9\xc3\xa9\n", stdout); return 0; }
            if (!strcmp(mode, "ok-huge")) { fputs("99999999999999999999999999\n", stdout); return 0; }
            if (!strcmp(mode, "ok-negative")) { fputs("-1\n", stdout); return 0; }
            if (!strcmp(mode, "killed")) { raise(SIGKILL); return 137; }
            /* a realistic git diagnostic (text in ZERV_VERIF_GIT_MSG): "msg" fails with it, "warn" prints it and then lets the real git answer */
            if (!strcmp(mode, "msg")) { const char *m = getenv("ZERV_VERIF_GIT_MSG"); fputs(m ? m : "fatal: injected\n", stderr); return 128; }
            if (!strcmp(mode, "warn")) { const char *m = getenv("ZERV_VERIF_GIT_MSG"); fputs(m ? m : "warning: injected\n", stderr); fflush(stderr); }
            else { fprintf(stderr, "gitshim: unknown mode %s\n", mode); return 99; }
        }
    }
    {
        /* a git that answers correctly but late (a big repository, a cold disk): ZERV_VERIF_GIT_DELAY_MS per call */
        const char *delay = getenv("ZERV_VERIF_GIT_DELAY_MS");
        if (delay && *delay) { long ms = atol(delay); if (ms > 0) usleep((useconds_t)ms * 1000); }
    }
    if (!real || !*real) { fprintf(stderr, "gitshim: ZERV_VERIF_REAL_GIT not set\n"); return 127; }
    argv[0] = (char *)real;
    execv(real, argv);
    perror("gitshim: execv");
    return 127;
}
