/* LD_PRELOAD shim: pins CLOCK_REALTIME (clock_gettime, gettimeofday, time) to
 * ZERV_VERIF_NOW seconds and appends one line per wall-clock read to
 * ZERV_VERIF_CLOCKLOG (if set).  Other clocks are passed through. */
#define _GNU_SOURCE
#include <dlfcn.h>
#include <fcntl.h>
#include <stdio.h>
#include <stdlib.h>
#include <string.h>
#include <sys/time.h>
#include <time.h>
#include <unistd.h>

static int (*real_clock_gettime)(clockid_t, struct timespec *);

static void log_read(const char *what) {
    const char *p = getenv("ZERV_VERIF_CLOCKLOG");
    if (!p || !*p) return;
    int fd = open(p, O_WRONLY | O_APPEND | O_CREAT, 0644);
    if (fd < 0) return;
    char buf[64];
    int n = snprintf(buf, sizeof buf, "%d %s\n", (int)getpid(), what);
    if (n > 0) { ssize_t r = write(fd, buf, (size_t)n); (void)r; }
    close(fd);
}

static int pinned(long long *out) {
    const char *s = getenv("ZERV_VERIF_NOW");
    if (!s || !*s) return 0;
    *out = atoll(s);
    return 1;
}

int clock_gettime(clockid_t clk, struct timespec *ts) {
    if (!real_clock_gettime)
        real_clock_gettime = (int (*)(clockid_t, struct timespec *))dlsym(RTLD_NEXT, "clock_gettime");
    long long now;
    if (clk == CLOCK_REALTIME && pinned(&now)) {
        log_read("clock_gettime");
        if (ts) { ts->tv_sec = (time_t)now; ts->tv_nsec = 0; }
        return 0;
    }
    return real_clock_gettime(clk, ts);
}

int gettimeofday(struct timeval *tv, void *tz) {
    long long now;
    (void)tz;
    if (pinned(&now)) {
        log_read("gettimeofday");
        if (tv) { tv->tv_sec = (time_t)now; tv->tv_usec = 0; }
        return 0;
    }
    struct timespec ts;
    if (!real_clock_gettime)
        real_clock_gettime = (int (*)(clockid_t, struct timespec *))dlsym(RTLD_NEXT, "clock_gettime");
    real_clock_gettime(CLOCK_REALTIME, &ts);
    if (tv) { tv->tv_sec = ts.tv_sec; tv->tv_usec = ts.tv_nsec / 1000; }
    return 0;
}

time_t time(time_t *t) {
    long long now;
    if (pinned(&now)) {
        log_read("time");
        if (t) *t = (time_t)now;
        return (time_t)now;
    }
    struct timespec ts;
    if (!real_clock_gettime)
        real_clock_gettime = (int (*)(clockid_t, struct timespec *))dlsym(RTLD_NEXT, "clock_gettime");
    real_clock_gettime(CLOCK_REALTIME, &ts);
    if (t) *t = ts.tv_sec;
    return ts.tv_sec;
}
