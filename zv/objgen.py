"""Generators of Zerv objects (schema + vars) in the vocabulary of zv.ron."""
from . import gen
from .refs import cal

CONTEXT_VARS = ["Distance", "Dirty", "BumpedBranch", "BumpedCommitHash", "BumpedCommitHashShort", "BumpedTimestamp",
                "LastBranch", "LastCommitHash", "LastCommitHashShort", "LastTimestamp"]
CUSTOM_KEYS = ["build_id", "env", "meta.author", "meta.n", "flag", "missing", "meta.deep.x", "arr"]


def rand_text(rng, ascii_only):
    if ascii_only:
        return gen.ascii_text(rng)
    return gen.hostile_text(rng, allow_control=False)


def rand_num(rng, bound):
    pool = [0, 1, 2, 9, 10, 99, 2 ** 31, 2 ** 32 - 2, 2 ** 32 - 1]
    if bound > 2 ** 32:
        pool += [2 ** 32, 2 ** 53 + 1, 2 ** 64 - 1]
    return rng.choice(pool) if rng.random() < 0.6 else rng.randrange(0, 100000)


def rand_component(rng, section, state, ascii_only, patterns=cal.PATTERNS):
    """section: core | extra_core | build; state tracks used primary/secondary vars."""
    r = rng.random()
    if section == "core" and r < 0.45:
        # next primary in order, if any left
        order = ["Major", "Minor", "Patch"]
        nxt = [x for x in order if order.index(x) > state.get("primary_idx", -1)]
        if nxt:
            pick = rng.choice(nxt[:2])
            state["primary_idx"] = order.index(pick)
            return ("var", pick)
    if section == "extra_core" and r < 0.55:
        left = [x for x in ["Epoch", "PreRelease", "Post", "Dev"] if x not in state.setdefault("secondary", set())]
        if left:
            pick = rng.choice(left)
            state["secondary"].add(pick)
            return ("var", pick)
    k = rng.random()
    if k < 0.30:
        return ("var", rng.choice(CONTEXT_VARS))
    if k < 0.45:
        return ("var", ("ts", rng.choice(patterns)))
    if k < 0.60:
        return ("var", ("custom", rng.choice(CUSTOM_KEYS)))
    if k < 0.80:
        return ("uint", rand_num(rng, 2 ** 32))
    return ("str", rng.choice(["x", "rc", "build", "007", "0", "a.b", "A-B_c", "10", "", "post", "1a"]) if rng.random() < 0.7 else rand_text(rng, ascii_only))


def rand_schema(rng, ascii_only=True, maxlen=5):
    while True:
        state = {}
        schema = dict(core=[], extra_core=[], build=[])
        for sec in ("core", "extra_core", "build"):
            n = rng.choice([0, 1, 2, 3, 3, 4, maxlen]) if sec == "core" else rng.choice([0, 0, 1, 2, 3, maxlen])
            for _ in range(n):
                schema[sec].append(rand_component(rng, sec, state, ascii_only))
        if schema["core"] or schema["extra_core"] or schema["build"]:
            return schema


def rand_custom(rng, ascii_only):
    def leaf():
        k = rng.random()
        if k < 0.35:
            return rand_text(rng, ascii_only)
        if k < 0.6:
            return rng.choice([0, 1, 7, 42, 2 ** 31, 2 ** 32 - 1, 123456,
                               # integers that a detour through f64 would round, and the i64 / u64 edges
                               2 ** 53, 2 ** 53 + 1, 9007199254740993, 2 ** 63 - 1, 2 ** 63, 2 ** 64 - 1, 20260921141320123, -9223372036854775808, -9007199254740993])
        if k < 0.7:
            return rng.choice([True, False])
        if k < 0.8:
            return rng.choice([2.5, 0.5, 1.25, -5, -1.5, 2024.5, 7.0, 100.0, -3.0])
        if k < 0.9:
            return None
        return rng.choice(["0051", "000", "v1.2", "Feature/API"])
    c = {}
    if rng.random() < 0.8:
        c["build_id"] = leaf()
    if rng.random() < 0.6:
        c["env"] = leaf()
    if rng.random() < 0.6:
        c["meta"] = {"author": leaf(), "n": leaf()}
        if rng.random() < 0.3:
            c["meta"]["deep"] = {"x": leaf()}
    if rng.random() < 0.4:
        c["flag"] = rng.choice([True, False])
    if rng.random() < 0.3:
        c["arr"] = [1, "two", None]
    if rng.random() < 0.12:
        # a top-level key that itself contains a dot: `custom("meta.author")` is the nested lookup, never this key
        c[rng.choice(["meta.author", "meta.n", "meta.deep.x", "build_id.x"])] = leaf()
    return c


def rand_hash(rng, ascii_only):
    k = rng.random()
    if k < 0.5:
        return "g" + "".join(rng.choice("0123456789abcdef") for _ in range(rng.choice([7, 8, 12, 40])))
    if k < 0.7:
        return "".join(rng.choice("0123456789abcdef") for _ in range(rng.choice([3, 7, 8, 9])))
    if k < 0.8:
        return "00000000" + rng.choice(["", "1", "ab"])
    return rand_text(rng, ascii_only)


def rand_vars(rng, ascii_only=True, bound=2 ** 32, ts_max=7258118399, wide=False):
    o = lambda f, p=0.7: f() if rng.random() < p else None
    # wide (C12): distances and instants over the whole u64 range of the fields - an interchange format has to carry them whatever a renderer makes of them
    dist = lambda: rng.choice([0, 0, 1, 2, 10, 1000] + ([2 ** 31, 2 ** 32 - 1, 2 ** 32, 2 ** 40, 2 ** 53 + 1, 2 ** 63, 2 ** 64 - 1] if wide else []))
    inst = lambda: (rng.choice([0, 1, 86399, 2 ** 31 - 1, 2 ** 31, 2 ** 32, 253402300799, 253402300800, 10 ** 12, 2 ** 53 + 1, 2 ** 63 - 1, 2 ** 63, 2 ** 64 - 1])
                    if wide and rng.random() < 0.3 else rng.randrange(0, ts_max))
    v = dict(
        major=o(lambda: rand_num(rng, bound), 0.9), minor=o(lambda: rand_num(rng, bound), 0.85), patch=o(lambda: rand_num(rng, bound), 0.85),
        epoch=o(lambda: rand_num(rng, bound), 0.3),
        pre_release=o(lambda: (rng.choice(["Alpha", "Beta", "Rc"]), o(lambda: rand_num(rng, bound), 0.8)), 0.5),
        post=o(lambda: rand_num(rng, bound), 0.4), dev=o(lambda: rand_num(rng, bound), 0.3),
        distance=o(dist, 0.6), dirty=o(lambda: rng.random() < 0.5, 0.7),
        bumped_branch=o(lambda: rand_text(rng, ascii_only), 0.7), bumped_commit_hash=o(lambda: rand_hash(rng, ascii_only), 0.7),
        bumped_timestamp=o(inst, 0.6),
        last_branch=o(lambda: rand_text(rng, ascii_only), 0.3), last_commit_hash=o(lambda: rand_hash(rng, ascii_only), 0.5),
        last_timestamp=o(inst, 0.5), last_tag_version=o(lambda: rng.choice(["1.2.3", "v1.0.0-rc.1", "1.0a1"]), 0.5),
        custom=rand_custom(rng, ascii_only),
    )
    return v
