"""C11 — PEP 440 comparison is a spelling-independent total order on a fixed key.

Observation: probe `cmp_matrix` fmt=pep440 (Ord / PartialEq on parsed PEP440 values),
`max_tag` for PEP 440 tags.  Oracle: zv.refs.pep440.key_zerv (the key the property
states)."""
import itertools

from .. import core
from ..refs import pep440 as ref
from . import cmpcommon

MINIMUMS = (100000, 500)
NUMS = [0, 1, 2, 10]
LOCALS = [None, (0,), (1,), (10,), ("a",), ("a", 1), ("b",), (1, "a"), ("a", "a"), ("a", 0)]


def universe():
    rels = []
    for n in (1, 2, 3):
        rels += list(itertools.product(NUMS, repeat=n))
    pres = [None] + [(l, n) for l in ("a", "b", "rc") for n in (0, 1, 10)]
    out = []
    for e in (0, 1):
        for rel in rels:
            for pre in pres:
                for post in (None, 0, 1, 10):
                    for dev in (None, 0, 1, 10):
                        for loc in LOCALS:
                            out.append(dict(epoch=e, release=rel, pre=pre, post=post, dev=dev, local=loc))
    return out


BIG_LOCAL = [2 ** 32, 2 ** 32 + 1, 5 * 10 ** 9, 10 ** 10, 10 ** 10 + 1, 99999999999, 2 ** 63, 2 ** 64 - 1, 2 ** 64, 10 ** 25, 20260921141320, 20260921141321, 9 * 10 ** 24,
             # no integer type holds these: u128 ends at 3.4e38
             2 ** 128 - 1, 2 ** 128, 5 * 10 ** 39, 10 ** 40, 10 ** 40 + 1, 3 * 10 ** 59, 10 ** 60, 7 * 10 ** 99, 10 ** 100]


def random_large(rng, n):
    nums = [0, 1, 2, 9, 10, 11, 99, 2 ** 31, 2 ** 32 - 2, 2 ** 32 - 1]
    out = []
    for _ in range(n):
        out.append(dict(epoch=rng.choice([0, 0, 1, 2, 2 ** 32 - 1]),
                        release=tuple(rng.choice(nums) for _ in range(rng.choice([1, 2, 3, 4, 6]))),
                        pre=rng.choice([None] + [(l, rng.choice(nums)) for l in ("a", "b", "rc")]),
                        post=rng.choice([None, None] + nums), dev=rng.choice([None, None] + nums),
                        local=rng.choice([None, None, (rng.choice(nums),), ("abc",), ("abd",), ("ab",), ("abc", rng.choice(nums)), (rng.choice(nums), "abc"),
                                          ("z", "z", "z"), ("z", "z"), (2 ** 32 - 1, 0),
                                          # numeric local parts have no upper limit ("numeric parts by value"): beyond u32, beyond u64, different digit counts
                                          (rng.choice(BIG_LOCAL),), (rng.choice(BIG_LOCAL),), ("abc", rng.choice(BIG_LOCAL)), (rng.choice(BIG_LOCAL), rng.choice(nums)),
                                          (rng.choice(BIG_LOCAL), "abc"), (rng.choice(nums), rng.choice(BIG_LOCAL))])))
    return out


def boundary_families(rng):
    """versions that differ in exactly one field, over boundary values of that field"""
    vals = [0, 1, 2, 9, 10, 2 ** 31 - 1, 2 ** 31, 2 ** 32 - 2, 2 ** 32 - 1]
    texts = ["a", "a1", "a2", "a10", "a22", "az", "b1", "b", "build10", "rc2", "el10", "fc9", "z", "zz", "0a", "1a", "10a", "a0"]
    out = []
    bases = [dict(epoch=0, release=(1, 0), pre=None, post=None, dev=None, local=None),
             dict(epoch=1, release=(2, 3, 4), pre=("b", 2), post=5, dev=6, local=("x", 7)),
             dict(epoch=0, release=(0,), pre=("rc", 0), post=None, dev=0, local=None)]
    for b in bases:
        for v in vals:
            out.append(dict(b, epoch=v))
            out.append(dict(b, release=b["release"][:-1] + (v,)))
            out.append(dict(b, release=(v,) + b["release"][1:]))
            for lab in ("a", "b", "rc"):
                out.append(dict(b, pre=(lab, v)))
            out.append(dict(b, post=v))
            out.append(dict(b, dev=v))
            out.append(dict(b, local=(v,)))
            out.append(dict(b, local=("x", v)))
            out.append(dict(b, local=(v, "x")))
        for v in BIG_LOCAL:
            out.append(dict(b, local=(v,)))
            out.append(dict(b, local=("x", v)))
            out.append(dict(b, local=(v, "x")))
        for t in texts:
            out.append(dict(b, local=(t,)))
            out.append(dict(b, local=("x", t)))
            out.append(dict(b, local=(t, 1)))
    return out


def key(s):
    return ref.key_zerv(ref.parse(s))


def work_max_tag(bins, lists):
    pr = core.worker_probe(bins)
    bad = []
    for tags, perm in lists:
        rs = []
        for lst in (tags, perm):
            r = pr.call(dict(op="max_tag", fmt="pep440", tags=lst))
            rs.append(r)
            if "panic" in r or "err" in r:
                bad.append(("max-tag-error", "max_tag failed: %r" % (r,), lst))
                continue
            valid = [t for t in lst if ref.parse(t) is not None and t == t.strip()]
            if sorted(r["valid"]) != sorted(valid):
                bad.append(("max-tag-valid-set", "valid set differs: zerv %r vs grammar %r" % (r["valid"], valid), lst))
                continue
            if not valid:
                if r.get("max") is not None:
                    bad.append(("max-tag-without-valid-tag", "no valid tag in %r but max_tag answered %r" % (lst, r.get("max")), lst))
                continue
            best = max(key(t) for t in valid)
            if r["max"] is None or r["max"] not in valid or key(r["max"]) != best:
                bad.append(("max-tag-not-maximal", "chose %r; maximal: %r" % (r["max"], [t for t in valid if key(t) == best]), lst))
        if all("max" in r and r["max"] for r in rs) and key(rs[0]["max"]) != key(rs[1]["max"]):
            bad.append(("max-tag-order-dependent", "%r vs %r" % (rs[0]["max"], rs[1]["max"]), tags))
    return dict(n=2 * len(lists), bad=bad)


def run(ctx):
    quick = ctx.tier == "quick"
    rng = ctx.sub_rng("u")
    uni = universe()
    ctx.count("small_universe_size", len(uni))
    base = rng.sample(uni, 4000 if quick else 30000)
    strings = []
    for v in base:
        strings.append(ref.normal(v))
        for _ in range(rng.choice([1, 2, 3])):
            strings.append(ref.spell(v, rng))
    strings = sorted(set(strings))
    strs, bad = cmpcommon.all_pairs(ctx, "pep440", strings, key, "small_universe")
    large = random_large(rng, 2500 if quick else 22000)
    lstr = []
    for v in large:
        lstr.append(ref.normal(v))
        lstr.append(ref.spell(v, rng))
    for v in boundary_families(rng):
        lstr.append(ref.normal(v))
    lstr = sorted(set(lstr))
    strs2, bad2 = cmpcommon.all_pairs(ctx, "pep440", lstr, key, "random_large")
    name = {"L": "Less", "E": "Equal", "G": "Greater", "!": "inconsistent operators", "?": "unparsable"}
    for strs_, bad_ in ((strs, bad), (strs2, bad2)):
        for sig, why, i, j, cell in bad_:
            if sig != "cmp":
                ctx.refute(sig, why, dict(kind="panic"))
                continue
            if i is None:
                ctx.violations.append(("pep440-order-differs", None))
                continue
            a, b = strs_[i], strs_[j]
            sig2 = "pep440-operators-inconsistent" if cell[0] == "!" else ("pep440-unparsable-in-matrix" if cell[0] == "?" else "pep440-order-differs")
            if sig2 == "pep440-order-differs" and cell[1] == "E":
                sig2 = "pep440-spellings-not-equal"
            ctx.refute(sig2, "cmp(%r, %r) = %s, the stated key says %s" % (a, b, name[cell[0]], name[cell[1]]), dict(kind="pair", a=a, b=b), observed=cell[0], expected=cell[1])
    ctx.distinct_extra += len(strs) + len(strs2)
    lists = []
    pool_ = strings + lstr + ["1.0.0-", "latest", "", "1..0", "x1", "1.0+"]
    for _ in range(400 if quick else 30000):
        tags = [rng.choice(pool_) for _ in range(rng.choice([1, 2, 3, 5, 9]))]
        perm = tags[:]
        rng.shuffle(perm)
        lists.append((tags, perm))
    for r in core.pmap(work_max_tag, [(ctx.bins, l) for l in core.split_even(lists, 16)]):
        ctx.evaluations += r["n"]
        ctx.count("max_tag_calls", r["n"])
        for sig, why, lst in r["bad"]:
            ctx.refute(sig, why, dict(kind="max_tag", tags=lst))
    ctx.sample(dict(spellings_of_one_version=[s for s in strs if key(s) == key(strs[len(strs) // 2])][:6], expected="all Equal"))
    ctx.sample(dict(pair=[strs2[0], strs2[-1]], expected="Less"))
    ctx.rule = ("all ordered pairs over %d spellings (normal form + 1-3 alternative spellings: case, separators, alpha/c/pre/preview/rev/r, -N post, "
                "leading zeros, v prefix, trailing .0, explicit 0!, implicit numbers) of a seeded %d-subset of the small universe (%d versions: epoch {0,1} x "
                "release {0,1,2,10}^1..3 x phase x post x dev x %d locals), all pairs over %d spellings of random large versions (u32 edges), and "
                "find_max_version_tag on %d tag lists. non-trivial = distinct spellings entering a matrix" % (
                    len(strs), len(base), len(uni), len(LOCALS), len(strs2), len(lists)))
    ctx.assumptions = ["oracle: the key written in property C11 (NOT real PEP 440: a bare dev release sorts above pre-releases, numeric local below alphabetic)"]


def replay(ctx, doc):
    c = doc["case"]
    pr = core.Probe(ctx.bins)
    rc = 0
    if c.get("kind") == "pair":
        rep = pr.call(dict(op="cmp_matrix", fmt="pep440", rows=[c["a"]], cols=[c["b"]]))
        ka, kb = key(c["a"]), key(c["b"])
        exp = "LEG"[(ka > kb) - (ka < kb) + 1]
        print("cmp(%r,%r) = %s expected %s" % (c["a"], c["b"], rep["rows"][0], exp))
        rc = 0 if rep["rows"][0] == exp else 1
    elif c.get("kind") == "max_tag":
        r = work_max_tag(ctx.bins, [(c["tags"], c["tags"])])
        print(r)
        rc = 1 if r["bad"] else 0
    pr.close()
    if rc:
        print("VIOLATION property=C11 replay=%s" % doc.get("_path", "?"))
    return rc
