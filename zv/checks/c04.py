"""C04 — flow derives pre-release, post and dev parts from the documented branch rules.

Observation: probe `cli` flow ... --output-format zerv under a pinned clock (mirrored on the
binary for a sample).  Oracle: zv.refs.flow applied to the current state zerv reports for the
same source and overrides without flow; branch hash learned on first sight and required to be
a function of (branch, length) only across all worker processes."""
import random

from .. import core, gen, objgen, ron
from ..refs import flow as F
from . import c07

MINIMUMS = (2000, 300)
NOW = core.PINNED_NOW
BRANCHES = ["main", "master", "develop", "developx", "develop/1", "release/3", "release/3/fix", "release/x", "release/x/12", "release/007",
            "release/4294967296", "release", "releasex/3", "release-3", "feature/login", "feature/42/login", "feature/x-9", "hotfix/7",
            "12", "a/b/c/5", "release/+5", "feature/+42/login", "+3", "release/-3", "release/5x/6", "release/x5/6", "feature/٣/4", "release/4294967296/5", "release/0/1", "dev", "x", "Feature/UPPER", "user/joe/fix-1", "release//3", "rc/1", "bugfix/ISSUE-42", "wip_2", "a", "d", "f", "b", "c", "e", "g",
            # the rule patterns in another letter case: git branch names are case-sensitive, `Release/3` is not under `release/`
            "Develop", "DEVELOP", "Release/3", "RELEASE/7", "Main", "Hotfix/7", "Feature/login", "User/joe/fix-1", "X", "releasE/3/fix",
            "refs/heads/release/3", "origin/develop", "heads/develop"]


def rand_branch(rng):
    k = rng.random()
    if k < 0.75:
        return rng.choice(BRANCHES)
    if k < 0.85:
        return rng.choice(["release/", "feature/", "hotfix/", "topic/"]) + str(rng.choice([0, 1, 9, 10, 77, 2 ** 32 - 1, 2 ** 32]))
    if k < 0.93:
        return "".join(rng.choice("abcdefghijklmnopqrstuvwxyz0123456789-_/") for _ in range(rng.randrange(1, 12))).strip("/") or "q"
    return gen.hostile_text(rng, allow_control=False, allow_empty=False).replace("\x00", "")


def rand_rules(rng):
    k = rng.random()
    if k < 0.45:
        return None           # default GitFlow rules
    if k < 0.52:
        return []
    rules = []
    for _ in range(rng.randrange(1, 5)):
        kind = rng.random()
        if kind < 0.4:
            pat = rng.choice(["develop", "main", "release", "release/3", "x", "feature/login", "12", "Develop", "X"])
            rules.append(dict(pattern=pat, label=rng.choice(["alpha", "beta", "rc"]), num=rng.choice([0, 1, 5, 42, 2 ** 32 - 1]), mode=rng.choice(["commit", "tag"])))
        elif kind < 0.85:
            pat = rng.choice(["release/*", "feature/*", "hotfix/*", "a/*", "release/3/*", "user/joe/*", "develop/*", "Release/*", "FEATURE/*"])
            rules.append(dict(pattern=pat, label=rng.choice(["alpha", "beta", "rc"]), num=None, mode=rng.choice(["commit", "tag"])))
        else:
            rules.append(dict(pattern="*", label=rng.choice(["alpha", "beta", "rc"]), num=None, mode=rng.choice(["commit", "tag"])))
    return rules


SCHEMA_PRESETS = ["standard", "standard-no-context", "standard-context", "standard-base", "standard-base-context", "standard-base-prerelease", "standard-base-prerelease-context",
                  "standard-base-prerelease-post", "standard-base-prerelease-post-context", "standard-base-prerelease-post-dev", "standard-base-prerelease-post-dev-context"]


def gen_case(rng):
    """-> dict(base_argv (source + overrides), flow_opts argv, stdin, opts, rules)"""
    src_stdin = rng.random() < 0.3
    common = []
    stdin = None
    big_distance = None
    if src_stdin:
        schema = dict(core=[("var", "Major"), ("var", "Minor"), ("var", "Patch")],
                      extra_core=[("var", "Epoch"), ("var", "PreRelease"), ("var", "Post"), ("var", "Dev")], build=[("var", "BumpedBranch")])
        v = objgen.rand_vars(rng, ascii_only=True, bound=2 ** 31)
        for k in ("major", "minor", "patch"):
            if v[k] is None:
                v[k] = 1
        if v["dev"] is not None and rng.random() < 0.7:
            v["dev"] = None
        v["bumped_branch"] = rand_branch(rng) if rng.random() < 0.9 else None
        if rng.random() < 0.06:
            # "for every ... distance": the variable is a u64; only a stdin object (or a huge history) can carry more than the --distance option takes
            v["distance"] = big_distance = rng.choice([2 ** 32, 2 ** 32 + 5, 10 ** 10, 2 ** 40])
        stdin = ron.zerv_to_ron(schema, v)
        common += ["--source", "stdin"]
    else:
        f = c07.gen_fields(rng, 2 ** 31)
        f["dev"] = None if rng.random() < 0.8 else f["dev"]
        f["build"] = None
        tag = c07.canon_semver(f) if rng.random() < 0.6 else c07.canon_pep440(f)
        common += ["--source", "none", "--tag-version", tag]
        if rng.random() < 0.9:
            common += ["--bumped-branch=" + (rand_branch(rng))]
    d = rng.choice([None, None, 0, 1, 2, 10, 1000]) if big_distance is None else None
    clean = False
    if d is not None:
        common += ["--distance", str(d)]
    r = rng.random()
    if r < 0.25:
        common += ["--dirty"]
    elif r < 0.4:
        common += ["--no-dirty"]
    elif r < 0.45 and d is None:
        common += ["--clean"]
        clean = True
    for comp in ("major", "minor", "patch", "epoch"):
        if rng.random() < 0.08:
            common += ["--%s" % comp, str(rng.choice([0, 1, 7, 2 ** 31]))]
    opts = dict(label=None, num=None, mode=None, post=None)
    fopts = []
    if rng.random() < 0.25:
        opts["label"] = rng.choice(["alpha", "beta", "rc"])
        fopts += ["--pre-release-label", opts["label"]]
    if rng.random() < 0.2:
        opts["num"] = rng.choice([0, 1, 7, 99, 2 ** 32 - 1])
        fopts += ["--pre-release-num", str(opts["num"])]
    if rng.random() < 0.3:
        opts["mode"] = rng.choice(["commit", "tag"])
        fopts += ["--post-mode", opts["mode"]]
    if rng.random() < 0.2:
        opts["post"] = rng.choice([0, 1, 5, 100])
        common += ["--post", str(opts["post"])]
    hlen = rng.choice([5, 5, 1, 2, 3, 4, 6, 7, 8, 9, 10])
    if hlen != 5 or rng.random() < 0.3:
        fopts += ["--hash-branch-len", str(hlen)]
    rules = rand_rules(rng)
    if rules is not None:
        fopts += ["--branch-rules", F.rules_to_ron(rules)]
    if rng.random() < 0.3:
        # "for every ... flow option": the schema decides what is printed, never which parts flow derives
        fopts += ["--schema", rng.choice(SCHEMA_PRESETS)]
    return dict(common=common, fopts=fopts, stdin=stdin, opts=opts, rules=rules, hlen=hlen, big_distance=big_distance)


def _cli(pr, argv, stdin):
    r = pr.call(dict(op="cli", argv=["zerv"] + argv, stdin=stdin))
    if "ok" in r:
        try:
            s, v = ron.decode_zerv(r["ok"])
        except ron.RonError as e:
            return ("garbled", str(e))
        return ("ok", s, v)
    if "panic" in r:
        return ("panic", r.get("at", "?").rsplit(":", 1)[0] + ": " + str(r["panic"])[:160])
    return ("err", r.get("err") or r.get("text") or repr(r))


_RE_PARSE_ANY = __import__("re").compile(r"Failed to parse '(\d+)': number too large to fit in target type")
_RE_PARSE = __import__("re").compile(r"Failed to parse '(\d{10})': number too large to fit in target type")


def _is_len10_overflow(hlen, msg):
    """exact signature of the recorded finding: length 10, a 10-digit hash above u32 that the u32 bump argument cannot hold"""
    m = _RE_PARSE.search(msg or "")
    return hlen == 10 and m is not None and int(m.group(1)) > 2 ** 32 - 1


def judge_case(pr, c, hashes, st):
    """returns list of (sig, why)"""
    out = []
    base_argv = ["version"] + c["common"] + ["--output-format", "zerv"]
    base = _cli(pr, [a for a in base_argv if True], c["stdin"])
    # the post override belongs to flow's own law; the baseline must not apply it
    if "--post" in c["common"]:
        i = c["common"].index("--post")
        base_argv2 = ["version"] + c["common"][:i] + c["common"][i + 2:] + ["--output-format", "zerv"]
        base = _cli(pr, base_argv2, c["stdin"])
    st["runs"] = st.get("runs", 0) + 1
    if base[0] != "ok":
        st["baseline_refused"] = st.get("baseline_refused", 0) + 1
        if base[0] == "panic":
            out.append(("panic@" + base[1].split(":")[0], "baseline panicked: %s" % base[1]))
        return out
    v0 = base[2]
    if "--tag-version" in c["common"]:
        tv = c07.vars_from_tag(c["common"][c["common"].index("--tag-version") + 1])
        if tv is not None:
            st["start_state_checks"] = st.get("start_state_checks", 0) + 1
            for k in ("epoch", "major", "minor", "patch", "pre_release", "post", "dev"):
                g = v0.get(k)
                g = tuple(g) if isinstance(g, list) else g
                if k == "post" and "--post" in c["common"]:
                    continue          # the baseline is run without --post (flow's own law applies it)
                if "--" + k in c["common"]:
                    want_o = int(c["common"][c["common"].index("--" + k) + 1])
                    if k == "epoch" and want_o == 0:
                        want_o = None
                    if g != want_o:
                        out.append(("component-override-not-applied", "--%s %r gives %s=%r" % (k, want_o, k, g)))
                        return out
                    continue
                if g != tv[k]:
                    out.append(("start-version-differs-from-tag", "--tag-version gives %s=%r, the tag denotes %r" % (k, g, tv[k])))
                    return out
            # context overrides must arrive unchanged
            want_d = None
            if "--distance" in c["common"]:
                want_d = int(c["common"][c["common"].index("--distance") + 1])
            if want_d is not None and v0.get("distance") != want_d:
                out.append(("context-override-not-applied", "--distance %d gives distance=%r" % (want_d, v0.get("distance"))))
            for a_ in c["common"]:
                if a_.startswith("--bumped-branch=") and v0.get("bumped_branch") != a_.split("=", 1)[1]:
                    out.append(("context-override-not-applied", "%s gives bumped_branch=%r" % (a_, v0.get("bumped_branch"))))
    rules = F.DEFAULT_RULES if c["rules"] is None else c["rules"]
    branch = v0.get("bumped_branch")
    exp = F.law(v0, c["opts"], rules, NOW)
    got = _cli(pr, ["flow"] + c["common"] + c["fopts"] + ["--output-format", "zerv"], c["stdin"])
    st["runs"] += 1
    st["flow_runs"] = st.get("flow_runs", 0) + 1
    if branch is not None and branch.endswith("/") :
        st["report_only_trailing_slash"] = st.get("report_only_trailing_slash", 0) + 1
        return out
    if got[0] == "panic":
        out.append(("panic@" + got[1].split(":")[0], "flow panicked: %s" % got[1]))
        return out
    if got[0] == "garbled":
        out.append(("flow-output-unreadable", got[1]))
        return out
    num = exp["pre_release"][1] if (exp["num_source"] is not None) else None
    unfit = exp["num_source"] == "unfit"
    if unfit:
        # the first all-digit segment does not fit the number type: the statement leaves the *number* open (zerv falls back to the hash);
        # rule, label, patch, post and dev are still the law's
        st["number_left_open_unfit_segment"] = st.get("number_left_open_unfit_segment", 0) + 1
        if got[0] == "err":
            return out
    if got[0] == "err":
        msg = got[1]
        if c.get("big_distance") is not None and _RE_PARSE_ANY.search(msg) and int(_RE_PARSE_ANY.search(msg).group(1)) == c["big_distance"] > 2 ** 32 - 1:
            # recorded finding (same u32 bump argument as the length-10 hash): the commit-mode post bump cannot carry a distance above u32
            out.append(("flow-distance-above-u32-overflow", "flow refused an object with distance %d: %s" % (c["big_distance"], msg[:160])))
        elif exp["num_source"] == "hash":
            # "every documented length works for every branch"
            sig = "flow-hash-len10-overflow" if _is_len10_overflow(c["hlen"], msg) else "flow-hash-length-fails"
            out.append((sig, "flow refused branch %r with --hash-branch-len %d: %s" % (branch, c["hlen"], msg[:160])))
        else:
            out.append(("flow-refused", "flow refused a valid request: %s" % msg[:200]))
        return out
    gv = got[2]
    st["applied"] = st.get("applied", 0) + 1
    st["mode:%s" % exp["mode"]] = st.get("mode:%s" % exp["mode"], 0) + 1
    st["numsrc:%s" % exp["num_source"]] = st.get("numsrc:%s" % exp["num_source"], 0) + 1
    st["rule:%s" % ("default-none" if exp["rule"] is None else ("*" if exp["rule"] == "*" else ("wild" if exp["rule"].endswith("/*") else "exact")))] = 1 + st.get(
        "rule:%s" % ("default-none" if exp["rule"] is None else ("*" if exp["rule"] == "*" else ("wild" if exp["rule"].endswith("/*") else "exact"))), 0)
    diffs = []
    for k in ("epoch", "major", "minor", "patch", "post", "dev"):
        a, b = gv.get(k), exp[k]
        if k == "epoch" and (a or 0) == (b or 0):
            continue
        if a != b:
            diffs.append("%s=%r, law says %r" % (k, a, b))
    gp = gv.get("pre_release")
    ep = exp["pre_release"]
    if exp["num_source"] is None:
        if (tuple(gp) if gp else None) != (tuple(ep) if ep else None):
            diffs.append("pre_release=%r, law says %r (unchanged)" % (gp, ep))
    else:
        if gp is None or gp[0] != ep[0]:
            diffs.append("pre-release label %r, law says %r" % (gp, ep[0]))
        elif unfit:
            pass
        elif num[0] == "num":
            if gp[1] != num[1]:
                diffs.append("pre-release number %r, law says %r" % (gp[1], num[1]))
        else:
            # hash: learn / compare, and check the contract
            h = gp[1]
            key = (branch, c["hlen"])
            st["hash_observations"] = st.get("hash_observations", 0) + 1
            if h is None or h < 0:
                diffs.append("branch hash missing")
            else:
                s = str(h)
                if len(s) > c["hlen"]:
                    out.append(("branch-hash-too-long", "hash %d of %r has more than %d digits" % (h, branch, c["hlen"])))
                prev = hashes.get(key)
                if prev is None:
                    hashes[key] = h
                elif prev != h:
                    out.append(("branch-hash-not-a-function", "hash of %r at length %d was %d before and is %d now" % (branch, c["hlen"], prev, h)))
    if diffs:
        sig = "flow-law-differs"
        if branch is not None and exp["rule"] is not None and any("pre-release" in d for d in diffs):
            # classify the wildcard-without-slash defect precisely
            for r in rules:
                p = r["pattern"]
                if p.endswith("/*") and branch.startswith(p[:-2]) and not branch.startswith(p[:-1]) and len(branch) > len(p) - 2:
                    if gp and gp[0] == F.LABEL[r["label"]] and r is not F.find_rule(rules, branch):
                        sig = "flow-wildcard-without-slash"
                    break
        out.append((sig, "; ".join(diffs[:4]) + " [branch %r, distance %r, dirty %r, rule %r]" % (branch, v0.get("distance"), v0.get("dirty"), exp["rule"])))
    return out


def work(bins, seed, n):
    rng = random.Random(seed)
    pr = core.worker_probe(bins)
    hashes = {}
    st = {}
    bad = []
    samples = []
    distinct = set()
    for _ in range(n):
        c = gen_case(rng)
        res = judge_case(pr, c, hashes, st)
        distinct.add(hash((tuple(c["common"]), tuple(c["fopts"]), c["stdin"])))
        for sig, why in res:
            bad.append((sig, why, dict(common=c["common"], fopts=c["fopts"], stdin=c["stdin"])))
        if len(samples) < 2 and c["fopts"]:
            samples.append(dict(argv=["flow"] + c["common"] + c["fopts"], stdin=bool(c["stdin"])))
    return dict(bad=bad, st=st, hashes=list(hashes.items()), samples=samples, distinct=len(distinct))


def work_lengths(bins, branches):
    """every documented length 1..10 for every branch; contract on the value"""
    pr = core.worker_probe(bins)
    bad = []
    table = {}
    n = 0
    for b in branches:
        for ln in range(1, 11):
            argv = ["flow", "--source", "none", "--tag-version", "1.0.0", "--distance", "1", "--bumped-branch=" + b, "--hash-branch-len", str(ln),
                    "--branch-rules", "[]", "--output-format", "zerv"]
            got = _cli(pr, argv, None)
            n += 1
            case = dict(common=argv[1:], fopts=[], stdin=None)
            if got[0] == "panic":
                bad.append(("panic@" + got[1].split(":")[0], got[1], case))
            elif got[0] != "ok":
                bad.append(("flow-hash-len10-overflow" if _is_len10_overflow(ln, got[1]) else "flow-hash-length-fails", "length %d fails for branch %r: %s" % (ln, b, got[1][:120]), case))
            else:
                pre = got[2].get("pre_release")
                h = pre[1] if pre else None
                if h is None or len(str(h)) > ln:
                    bad.append(("branch-hash-too-long", "hash %r of %r exceeds %d digits" % (h, b, ln), case))
                table[(b, ln)] = h
    return dict(n=n, bad=bad, hashes=list(table.items()))


def work_mirror(bins, cases):
    pr = core.worker_probe(bins)
    dis = []
    env = core.base_env(bins)
    for c in cases:
        argv = ["flow"] + c["common"] + c["fopts"] + ["--output-format", "zerv"]
        p = pr.call(dict(op="cli", argv=["zerv"] + argv, stdin=c["stdin"]))
        r = core.run_zerv(bins, argv, stdin=c["stdin"], env=env)
        if r["timeout"]:
            continue
        if "ok" in p:
            if r["exit"] != 0 or r["out"] != p["ok"] + "\n":
                dis.append((argv, p, r))
        elif "panic" not in p and (r["exit"] == 0 or r["out"]):
            dis.append((argv, p, r))
    return dict(n=len(cases), dis=dis)


def run(ctx):
    quick = ctx.tier == "quick"
    per = 1000 if quick else 48000
    res = core.pmap(work, [(ctx.bins, "%s/%d/%d" % (ctx.prop, ctx.seed, i), per) for i in range(32)])
    merged = {}
    for r in res:
        ctx.merge_counts(r["st"])
        ctx.evaluations += r["st"].get("runs", 0)
        ctx.distinct_extra += r["distinct"]
        for sig, why, case in r["bad"]:
            ctx.refute(sig, why, case)
        for s in r["samples"][:1]:
            ctx.sample(s, cap=4)
        for key, h in r["hashes"]:
            key = tuple(key)
            if key in merged and merged[key] != h:
                ctx.refute("branch-hash-not-a-function", "hash of %r at length %d is %d in one process and %d in another" % (key[0], key[1], merged[key], h),
                           dict(branch=key[0], length=key[1]))
            merged[key] = h
    rng = ctx.sub_rng("lengths")
    names = sorted(set(BRANCHES + [rand_branch(rng) for _ in range(200 if quick else 10000)]))
    names = [b for b in names if "\x00" not in b and not b.endswith("/")]
    for r in core.pmap(work_lengths, [(ctx.bins, p) for p in core.split_even(names, 16)]):
        ctx.evaluations += r["n"]
        ctx.count("all_lengths_runs", r["n"])
        for sig, why, case in r["bad"]:
            ctx.refute(sig, why, case)
        for key, h in r["hashes"]:
            key = tuple(key)
            if key in merged and merged[key] != h:
                ctx.refute("branch-hash-not-a-function", "hash of %r at length %d differs between processes: %r vs %r" % (key[0], key[1], merged[key], h),
                           dict(branch=key[0], length=key[1]))
            merged[key] = h
    ctx.count("distinct_branch_length_pairs_hashed", len(merged))
    mrng = ctx.sub_rng("mirror")
    cases = [gen_case(mrng) for _ in range(120 if quick else 8000)]
    nd = 0
    for r in core.pmap(work_mirror, [(ctx.bins, p) for p in core.split_even(cases, 16)]):
        ctx.count("probe_vs_binary_mirrored", r["n"])
        ctx.evaluations += r["n"]
        nd += len(r["dis"])
        if r["dis"]:
            ctx.notes.append("probe/binary disagreement: %r" % (r["dis"][0],))
    if nd:
        raise core.Inconclusive("probe and binary disagree on %d flow command lines (harness error)" % nd)
    ctx.rule = ("%d random (tag, branch, distance, dirty/--no-dirty/--clean, --post, --pre-release-label/num, --post-mode, --hash-branch-len 1-10, --branch-rules "
                "default / [] / random valid lists incl. shadowing and duplicate patterns) combinations on sources none and stdin, each judged against the flow "
                "law applied to zerv's own no-flow state; every length 1..10 for %d branch names; branch hash required to be one function of (branch, length) "
                "across 48 processes. non-trivial = distinct command lines" % (32 * per, len(names)))
    ctx.assumptions = ["current state = `zerv version` with the same source and overrides (tag parsing not re-modelled)",
                       "branch names ending in '/' and numeric segments above u32 are report-only (statement silent)",
                       "hash value itself is learned, not pinned to an algorithm"]


def replay(ctx, doc):
    c = doc["case"]
    if "common" not in c:
        print("replay: re-run the check (cross-process hash comparison)")
        return 0
    argv = ["flow"] + c["common"] + c["fopts"] + ["--output-format", "zerv"]
    r = core.run_zerv(ctx.bins, argv, stdin=c.get("stdin"))
    print("exit=%s\n%s\n%s" % (r["exit"], r["out"][-1500:], r["err"][:400]))
    print(doc.get("what"))
    return 0
