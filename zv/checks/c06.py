"""C06 — rendering places every schema component where the documented rules say.

Observation: probe `zerv_obj` (Zerv::from_str on RON built by zv.ron, then the real
SemVer::from(Zerv) / PEP440::from(Zerv)), the real binary via stdin on a sample, probe
`preset_schema` (ZervSchemaPreset::schema_with_zerv) for the tier clause.
Oracle: zv.refs.render."""
from .. import core, objgen, ron
from ..refs import render as R
from ..refs import pep440 as P
from ..refs import semver as S

MINIMUMS = (3000, 500)


def classify(fmt, got, exp, notes, schema, v, ascii_only):
    """signature for a mismatch"""
    if isinstance(got, dict) and "panic" in got:
        return "panic@" + got.get("at", "?").rsplit(":", 1)[0]
    if "core-int-above-limit" in notes or "above-u32" in notes:
        return "u32-narrowing-in-render"
    if not ascii_only and (not str(got).isascii() or _has_nonascii_text(schema, v)):
        return "sanitize-non-ascii"
    return "render-differs"


def _has_nonascii_text(schema, v):
    for sec in ("core", "extra_core", "build"):
        for c in schema[sec]:
            raw = R.raw_value(c, v)
            if raw is not None and not raw.isascii():
                return True
    return False


def work_objects(bins, seed, n, ascii_only):
    import random
    rng = random.Random(seed)
    pr = core.worker_probe(bins)
    bad = []
    stats = {"objects": 0, "with_prerelease_ids": 0, "with_build": 0, "with_local": 0, "nonascii_objects": 0, "refused_by_zerv": 0}
    seen = set()
    samples = []
    for _ in range(n):
        schema = objgen.rand_schema(rng, ascii_only=ascii_only)
        # one object in eight: numbers up to u64 in every variable, commit times up to the year 99999
        wide = rng.random() < 0.125
        v = objgen.rand_vars(rng, ascii_only=ascii_only, bound=2 ** 64 if wide else 2 ** 32, ts_max=3093527980799 if wide else 7258118399)
        if wide and v.get("distance") is not None and rng.random() < 0.5:
            v["distance"] = rng.choice([2 ** 32, 2 ** 53 + 1, 2 ** 64 - 1])
        text = ron.zerv_to_ron(schema, v)
        rep = pr.call(dict(op="zerv_obj", ron=text))
        stats["objects"] += 1
        case = dict(kind="obj", ron=text)
        if not rep.get("ok"):
            # generator builds valid schemas only: a refusal is a disagreement about validity
            if "panic" in rep:
                bad.append(("panic@" + rep.get("at", "?").rsplit(":", 1)[0], "Zerv::from_str panicked: %s" % rep["panic"], case))
            else:
                stats["refused_by_zerv"] += 1
                bad.append(("valid-schema-refused", "valid object refused: %s" % rep.get("err"), case))
            continue
        if not rep.get("valid"):
            bad.append(("valid-schema-refused", "Zerv::new refused a schema that follows the placement rules: %s" % rep.get("valid_err"), case))
            continue
        es, ns = R.semver(schema, v)
        ep, np_ = R.pep440(schema, v)
        if not ascii_only and _has_nonascii_text(schema, v):
            stats["nonascii_objects"] += 1
        for fmt, got, exp, notes in (("semver", rep["semver"], es, ns), ("pep440", rep["pep440"], ep, np_)):
            if fmt == "pep440" and "above-u32" in notes and not (isinstance(got, dict) and "panic" in got):
                # a number beyond PEP 440's integer type: outside C06's domain (C07 judges silent changes)
                stats["pep440_out_of_domain"] = stats.get("pep440_out_of_domain", 0) + 1
                continue
            if fmt == "semver" and "core-int-above-limit" in notes and not (isinstance(got, dict) and "panic" in got):
                stats["semver_out_of_domain"] = stats.get("semver_out_of_domain", 0) + 1
                continue
            if got != exp:
                sig = classify(fmt, got, exp, notes, schema, v, ascii_only)
                bad.append((sig, "%s rendering %r, rules say %r" % (fmt, got, exp), case))
        if "-" in es.split("+")[0]:
            stats["with_prerelease_ids"] += 1
        if "+" in es:
            stats["with_build"] += 1
        if "+" in ep:
            stats["with_local"] += 1
        seen.add(hash(text))
        if len(samples) < 2:
            samples.append(dict(schema=ron.schema_to_ron(schema), semver=es, pep440=ep))
    return dict(bad=bad, stats=stats, distinct=len(seen), samples=samples)


def work_binary(bins, seed, n):
    """same objects through the real CLI via stdin"""
    import random
    rng = random.Random(seed)
    bad = []
    k = 0
    for _ in range(n):
        schema = objgen.rand_schema(rng, ascii_only=True)
        v = objgen.rand_vars(rng, ascii_only=True)
        # the version pipeline re-stamps bumped_timestamp when dirty; keep the object clean so that it is a pure rendering
        v["dirty"] = False if v.get("dirty") else v.get("dirty")
        if v.get("epoch") == 0:
            v["epoch"] = None        # the version pipeline normalises epoch 0 to absent (documented)
        text = ron.zerv_to_ron(schema, v)
        for fmt, (exp, notes) in (("semver", R.semver(schema, v)), ("pep440", R.pep440(schema, v))):
            r = core.run_zerv(bins, ["version", "--source", "stdin", "--output-format", fmt], stdin=text)
            k += 1
            if r["timeout"]:
                continue
            if fmt == "pep440" and "above-u32" in notes:
                continue
            if fmt == "semver" and "core-int-above-limit" in notes:
                continue
            if r["exit"] != 0 or r["out"] != exp + "\n":
                sig = "u32-narrowing-in-render" if notes else ("panic-in-binary" if "panicked" in r["err"] else "render-differs")
                bad.append((sig, "binary %s rendering exit=%s out=%r err=%r, rules say %r" % (fmt, r["exit"], r["out"], r["err"][:200], exp), dict(kind="bin", ron=text, fmt=fmt)))
    return dict(n=k, bad=bad)


def work_tier(bins, seed, n):
    import random
    rng = random.Random(seed)
    pr = core.worker_probe(bins)
    bad = []
    tiers = {}
    k = 0
    base_schema = dict(core=[("var", "Major")], extra_core=[], build=[])
    for _ in range(n):
        v = objgen.rand_vars(rng, ascii_only=False)
        # make the four deciding variables hit all 16+ combinations evenly
        v["dirty"] = rng.choice([None, False, True])
        v["distance"] = rng.choice([None, 0, 1, 5])
        if rng.random() < 0.5:
            v["pre_release"] = None
        v["post"] = rng.choice([None, None, 0, 0, 1, 7])
        text = ron.zerv_to_ron(base_schema, v)
        # metamorphic partner: same deciding state, every other variable re-drawn
        v2 = objgen.rand_vars(rng, ascii_only=False)
        for key in ("dirty", "distance"):
            v2[key] = v[key]
        v2["pre_release"] = None if v["pre_release"] is None else (rng.choice(["Alpha", "Beta", "Rc"]), rng.choice([None, 0, 5]))
        v2["post"] = None if v["post"] is None else rng.choice([0, 1, 99])
        if v2["distance"] not in (None, 0):
            v2["distance"] = rng.choice([1, 2, 1000])
        text2 = ron.zerv_to_ron(base_schema, v2)
        for name in ("standard", "standard-no-context", "standard-context", "calver", "calver-no-context", "calver-context"):
            k += 1
            rep = pr.call(dict(op="preset_schema", name=name, ron=text))
            rep2 = pr.call(dict(op="preset_schema", name=name, ron=text2))
            case = dict(kind="tier", name=name, ron=text, ron2=text2)
            if "ron" not in rep or "ron" not in rep2:
                bad.append(("preset-schema-failed", "schema_with_zerv failed: %r / %r" % (rep, rep2), case))
                continue
            got, _ = ron.decode_zerv(rep["ron"])
            got2, _ = ron.decode_zerv(rep2["ron"])
            got.pop("precedence_order", None)
            got2.pop("precedence_order", None)
            exp = R.preset_schema(name, v)
            tiers[(name, R.tier(v))] = tiers.get((name, R.tier(v)), 0) + 1
            if got != exp:
                bad.append(("tier-differs", "%s chose %s, rules say %s (dirty=%r distance=%r pre=%r post=%r)" % (
                    name, ron.schema_to_ron(got), ron.schema_to_ron(exp), v["dirty"], v["distance"], v["pre_release"], v["post"]), case))
            if got != got2:
                bad.append(("tier-depends-on-other-vars", "%s chose different schemas for the same (dirty, distance>0, pre, post) state" % name, case))
    return dict(n=k, bad=bad, tiers={"%s/%s" % k_: n_ for k_, n_ in tiers.items()})


def work_fixed_presets(bins):
    """the 16 fixed presets + 6 smart ones exist and equal the documented composition"""
    pr = core.worker_probe(bins)
    bad = []
    v = dict(major=1, minor=2, patch=3, custom={})
    text = ron.zerv_to_ron(dict(core=[("var", "Major")], extra_core=[], build=[]), v)
    for name in R.PRESETS:
        rep = pr.call(dict(op="preset_schema", name=name, ron=text))
        if "ron" not in rep:
            bad.append(("preset-missing", "preset %s: %r" % (name, rep), dict(kind="preset", name=name)))
            continue
        got, _ = ron.decode_zerv(rep["ron"])
        got.pop("precedence_order", None)
        if got != R.preset_schema(name, v):
            bad.append(("preset-composition-differs", "preset %s is %s" % (name, ron.schema_to_ron(got)), dict(kind="preset", name=name)))
    return dict(n=len(R.PRESETS), bad=bad)


def run(ctx):
    quick = ctx.tier == "quick"
    per = 4000 if quick else 120000
    jobs = [(ctx.bins, "%s/%d/obj/%d" % (ctx.prop, ctx.seed, i), per, i % 4 != 0) for i in range(32)]
    allbad = []
    for r in core.pmap(work_objects, jobs):
        ctx.evaluations += 2 * r["stats"]["objects"]
        ctx.merge_counts(r["stats"])
        ctx.distinct_extra += r["distinct"]
        allbad += r["bad"]
        for s in r["samples"][:1]:
            ctx.sample(s, cap=5)
    bjobs = [(ctx.bins, "%s/%d/bin/%d" % (ctx.prop, ctx.seed, i), 80 if quick else 2400) for i in range(16)]
    for r in core.pmap(work_binary, bjobs):
        ctx.evaluations += r["n"]
        ctx.count("binary_stdin_renderings", r["n"])
        allbad += r["bad"]
    tjobs = [(ctx.bins, "%s/%d/tier/%d" % (ctx.prop, ctx.seed, i), 250 if quick else 10000) for i in range(16)]
    for r in core.pmap(work_tier, tjobs):
        ctx.evaluations += r["n"]
        ctx.count("tier_decisions", r["n"])
        ctx.merge_counts({"tier:" + k: n for k, n in r["tiers"].items()})
        allbad += r["bad"]
    r = work_fixed_presets(ctx.bins)
    ctx.evaluations += r["n"]
    allbad += r["bad"]
    for sig, why, case in allbad:
        ctx.refute(sig, why, case)
    ctx.rule = ("random valid schemas (<=5 components per section mixing var/str/uint/ts/custom, primary vars in order, secondary vars once) x random variable "
                "assignments (numbers up to 2^32-1, hostile ASCII text in 3 of 4 shards, Unicode text in the 4th), both renderings of each; a sample through "
                "the binary via stdin; tier choice of the 6 smart presets incl. a metamorphic partner with all non-deciding variables re-drawn; composition of "
                "all 22 presets. non-trivial = distinct objects")
    ctx.assumptions = ["rules as in DESIGN Appendix A.3 (transcribed from the property statement)",
                       "floats in custom values restricted to ones whose shortest decimal form is unambiguous"]


def replay(ctx, doc):
    c = doc["case"]
    if c["kind"] in ("obj", "bin"):
        schema, v = ron.decode_zerv(c["ron"])
        schema.pop("precedence_order", None)
        pr = core.Probe(ctx.bins)
        rep = pr.call(dict(op="zerv_obj", ron=c["ron"]))
        pr.close()
        es, _ = R.semver(schema, v)
        ep, _ = R.pep440(schema, v)
        print("zerv semver=%r pep440=%r\nrule semver=%r pep440=%r" % (rep.get("semver"), rep.get("pep440"), es, ep))
        if rep.get("semver") != es or rep.get("pep440") != ep:
            print("VIOLATION property=C06 replay=%s" % doc.get("_path", "?"))
            return 1
        return 0
    print("replay of kind %s: re-run the check" % c["kind"])
    return 0
