"""C07 — format conversion is faithful: zerv reads back its own versions unchanged.

Observation: probe `cli` render (the real run_render), mirrored on the real binary for a
seeded sample.  Oracle: string-level expectations built from the generated fields, and
zv.refs.pep440 / zv.refs.semver for equality and field extraction (never zerv's parsers)."""
import re

from .. import core
from ..refs import pep440 as P
from ..refs import semver as S

MINIMUMS = (5000, 500)
U32 = 2 ** 32 - 1
U64 = 2 ** 64 - 1
LAB = {"alpha": "a", "beta": "b", "rc": "rc"}
RLAB = {"a": "alpha", "b": "beta", "rc": "rc"}
BIG = [2 ** 32, 2 ** 32 + 1, 2 ** 63, 2 ** 64 - 1, 2 ** 64, 10 ** 30]


def canon_semver(f):
    s = "%d.%d.%d" % (f["major"], f["minor"], f["patch"])
    pre = []
    if f.get("epoch") is not None:
        pre += ["epoch", str(f["epoch"])]
    if f.get("pre") is not None:
        pre += [f["pre"][0], str(f["pre"][1])]
    if f.get("post") is not None:
        pre += ["post", str(f["post"])]
    if f.get("dev") is not None:
        pre += ["dev", str(f["dev"])]
    if pre:
        s += "-" + ".".join(pre)
    if f.get("build"):
        s += "+" + ".".join(str(x) for x in f["build"])
    return s


def canon_pep440(f):
    s = ""
    if f.get("epoch") is not None:
        s += "%d!" % f["epoch"]
    s += "%d.%d.%d" % (f["major"], f["minor"], f["patch"])
    if f.get("pre") is not None:
        s += "%s%d" % (LAB[f["pre"][0]], f["pre"][1])
    if f.get("post") is not None:
        s += ".post%d" % f["post"]
    if f.get("dev") is not None:
        s += ".dev%d" % f["dev"]
    if f.get("build"):
        s += "+" + ".".join(str(x) for x in f["build"])
    return s


_CANON = re.compile(r"\A(\d+)\.(\d+)\.(\d+)(?:-(?:epoch\.(\d+)\.?)?(?:(alpha|beta|rc)\.(\d+)\.?)?(?:post\.(\d+)\.?)?(?:dev\.(\d+))?)?(?:\+([0-9a-zA-Z.-]+))?\Z", re.ASCII)


def fields_of_semver(s):
    """canonical-shape SemVer string -> numeric slots, or None"""
    if S.parse(s, allow_v=False) is None:
        return None
    m = _CANON.match(s)
    if not m or s.endswith(".") or ".-" in s or "-+" in s or s.endswith("-"):
        return None
    g = m.groups()
    return dict(major=int(g[0]), minor=int(g[1]), patch=int(g[2]), epoch=int(g[3]) if g[3] else None,
                pre=(g[4], int(g[5])) if g[4] else None, post=int(g[6]) if g[6] else None, dev=int(g[7]) if g[7] else None,
                build=g[8])


def fields_of_pep440(s):
    v = P.parse(s)
    if v is None or len(v["release"]) != 3:
        return None
    return dict(major=v["release"][0], minor=v["release"][1], patch=v["release"][2], epoch=v["epoch"] or None,
                pre=(RLAB[v["pre"][0]], v["pre"][1]) if v["pre"] else None, post=v["post"], dev=v["dev"],
                build=".".join(str(x) for x in v["local"]) if v["local"] else None)


def vars_from_tag(tag):
    """version variables a canonical-shape tag denotes (independent of zerv's parsers), or None"""
    t = tag[1:] if tag[:1] == "v" else tag
    f = fields_of_semver(t)
    if f is None:
        f = fields_of_pep440(t)
    if f is None:
        return None
    lab = {"alpha": "Alpha", "beta": "Beta", "rc": "Rc"}
    return dict(epoch=f["epoch"], major=f["major"], minor=f["minor"], patch=f["patch"],
                pre_release=(lab[f["pre"][0]], f["pre"][1]) if f["pre"] else None, post=f["post"], dev=f["dev"])


def gen_fields(rng, bound, epoch0=False):
    nums = [0, 1, 2, 9, 10, 99, 2 ** 31, 2 ** 32 - 2, 2 ** 32 - 1]
    if bound > U32:
        nums = nums + [2 ** 32, 2 ** 53 + 1, 2 ** 64 - 2, 2 ** 64 - 1]
    pick = lambda: rng.choice(nums) if rng.random() < 0.7 else rng.randrange(0, min(bound, 10 ** 6))
    f = dict(major=pick(), minor=pick(), patch=pick(), epoch=None, pre=None, post=None, dev=None, build=None)
    if rng.random() < 0.3:
        f["epoch"] = max(1, pick())
    elif epoch0 and rng.random() < 0.06:
        f["epoch"] = 0          # an explicit `epoch.0` is canonical shape too: SemVer -> SemVer must keep it (PEP 440 normal form drops a zero epoch)
    if rng.random() < 0.5:
        f["pre"] = (rng.choice(["alpha", "beta", "rc"]), pick())
    if rng.random() < 0.4:
        f["post"] = pick()
    if rng.random() < 0.4:
        f["dev"] = pick()
    if rng.random() < 0.4:
        ids = []
        for _ in range(rng.randrange(1, 4)):
            ids.append(rng.choice(["abc", "g1a2b3c", "x", "main", "7", "0", "10", "a1", "1a", "build", "20240315", str(min(bound, U32)),
                                   # build / local identifiers have no numeric limit: beyond u32, beyond u64, a timestamp-sized run
                                   "4294967296", "18446744073709551615", "18446744073709551616", "20260921141320", "9" * 41]))
        f["build"] = ids
    return f


def call(pr, version, infmt, outfmt):
    argv = ["zerv", "render", "--input-format", infmt, "--output-format", outfmt, "--", version]
    return pr.call(dict(op="cli", argv=argv))


def _res(r):
    """-> ('ok', text) | ('err', msg) | ('panic', where)"""
    if "ok" in r:
        return ("ok", r["ok"])
    if "panic" in r:
        return ("panic", r.get("at", "?").rsplit(":", 1)[0] + ": " + str(r["panic"])[:120])
    if "err" in r:
        return ("err", r["err"])
    if "clap" in r:
        return ("err", "clap " + r["clap"])
    return ("err", repr(r))


def work_canonical(bins, cases):
    """cases: list of field dicts (all numbers within u32)."""
    pr = core.worker_probe(bins)
    bad = []
    n = 0
    for f in cases:
        s = canon_semver(f)
        p = canon_pep440(f)
        steps = [(s, "semver", "semver", s, "canonical SemVer must render to SemVer unchanged"),
                 (s, "semver", "pep440", p, "canonical SemVer to PEP 440"),
                 (p, "pep440", "semver", s, "the PEP 440 form back to the original SemVer"),
                 (p, "pep440", "pep440", p, "PEP 440 rendering is a fixed point"),
                 (s, "auto", "pep440", p, "auto-detected canonical SemVer to PEP 440")]
        if f.get("epoch") == 0:
            p0 = canon_pep440(dict(f, epoch=None))
            steps = [(s, "semver", "semver", s, "canonical SemVer with an explicit epoch.0 must render to SemVer unchanged"),
                     (s, "semver", "pep440", (p, p0), "canonical SemVer with epoch.0 to PEP 440 (zero epoch printed or dropped)"),
                     (p0, "pep440", "pep440", p0, "PEP 440 rendering is a fixed point")]
        for inp, fi, fo, want, what in steps:
            n += 1
            k, out = _res(call(pr, inp, fi, fo))
            if k == "panic":
                bad.append(("panic@" + out.split(":")[0], "render %r (%s->%s) panicked: %s" % (inp, fi, fo, out), dict(kind="canonical", fields=f)))
            elif k != "ok" or (out not in want if isinstance(want, tuple) else out != want):
                bad.append(("conversion-differs", "%s: render %r -f %s --output-format %s gave %r, expected %r" % (what, inp, fi, fo, out, want), dict(kind="canonical", fields=f)))
    return dict(n=n, bad=bad)


def work_pep_roundtrip(bins, strings):
    pr = core.worker_probe(bins)
    bad = []
    n = 0
    for p in strings:
        pv = P.parse(p)
        n += 1
        k, q = _res(call(pr, p, "pep440", "semver"))
        case = dict(kind="pep", input=p)
        if k == "panic":
            bad.append(("panic@" + q.split(":")[0], "render %r panicked: %s" % (p, q), case))
            continue
        if k != "ok":
            bad.append(("pep440-to-semver-refused", "accepted PEP 440 %r could not be rendered as SemVer: %s" % (p, q), case))
            continue
        if S.parse(q, allow_v=False) is None:
            bad.append(("conversion-output-malformed", "render %r -> semver gave %r which is not SemVer" % (p, q), case))
            continue
        k2, r = _res(call(pr, q, "semver", "pep440"))
        if k2 != "ok" or P.parse(r) is None:
            bad.append(("semver-back-to-pep440-failed", "%r -> %r -> %r" % (p, q, r), case))
            continue
        if P.key_pep440(P.parse(r)) != P.key_pep440(pv):
            bad.append(("pep440-roundtrip-not-equal", "%r -> semver %r -> pep440 %r is a different version" % (p, q, r), case))
            continue
        # fixed points
        k3, q2 = _res(call(pr, q, "semver", "semver"))
        if k3 != "ok" or q2 != q:
            bad.append(("semver-rendering-not-fixed-point", "%r (rendered from %r) re-renders as %r" % (q, p, q2), case))
        k4, r2 = _res(call(pr, r, "pep440", "pep440"))
        if k4 != "ok" or r2 != r:
            bad.append(("pep440-rendering-not-fixed-point", "%r re-renders as %r" % (r, r2), case))
        k5, pn = _res(call(pr, p, "pep440", "pep440"))
        if k5 != "ok" or pn != P.normal(pv):
            bad.append(("pep440-render-not-normal-form", "render %r -> pep440 gave %r, normal form %r" % (p, pn, P.normal(pv)), case))
        n += 4
    return dict(n=n, bad=bad)


def gen_pep_long(rng):
    nums = [0, 1, 2, 3, 4, 5, 9, 10, 11, 2 ** 31, 2 ** 32 - 1]
    rel = tuple(rng.choice(nums) for _ in range(rng.choice([4, 5, 5, 6, 8])))
    if rng.random() < 0.5:
        rel = tuple(range(1, len(rel) + 1)) if rng.random() < 0.5 else rel[:3] + tuple(sorted(rel[3:], reverse=True))
    v = dict(epoch=rng.choice([0, 0, 1]), release=rel, pre=rng.choice([None, None, ("a", 1), ("rc", 2)]), post=rng.choice([None, None, 3]), dev=rng.choice([None, None, 4]),
             local=rng.choice([None, None, ("abc", 7)]))
    return P.normal(v)


def work_pep_long(bins, strings):
    """PEP 440 with more than three release numbers: outside the round-trip clause, inside "every rendering is a fixed point" and
    "a numeric field is never silently replaced by another number" """
    import re as _re
    pr = core.worker_probe(bins)
    bad = []
    n = 0
    for p in strings:
        pv = P.parse(p)
        case = dict(kind="peplong", input=p)
        k1, out = _res(call(pr, p, "pep440", "pep440"))
        n += 1
        if k1 == "panic":
            bad.append(("panic@" + out.split(":")[0], "render %r panicked: %s" % (p, out), case))
            continue
        if k1 == "ok":
            ov = P.parse(out)
            if ov is None or P.key_pep440(ov) != P.key_pep440(pv):
                bad.append(("conversion-differs", "render %r -f pep440 --output-format pep440 printed %r: not the same version (release numbers %r)" % (p, out, pv["release"]), case))
            else:
                k2, out2 = _res(call(pr, out, "pep440", "pep440"))
                n += 1
                if k2 != "ok" or out2 != out:
                    bad.append(("pep440-rendering-not-fixed-point", "%r (from %r) re-renders as %r" % (out, p, out2), case))
        k3, q = _res(call(pr, p, "pep440", "semver"))
        n += 1
        if k3 == "ok":
            if S.parse(q, allow_v=False) is None:
                bad.append(("conversion-output-malformed", "render %r -> semver gave %r" % (p, q), case))
                continue
            ids = [int(x) for x in _re.findall(r"(?<![A-Za-z0-9])\d+(?![A-Za-z0-9])", q.split("+")[0])]
            it = iter(ids)
            if not all(any(x == y for y in it) for x in pv["release"]):
                bad.append(("conversion-differs", "render %r -> semver gave %r: the release numbers %r do not reappear in their order" % (p, q, pv["release"]), case))
            k4, q2 = _res(call(pr, q, "semver", "semver"))
            n += 1
            if k4 != "ok" or q2 != q:
                bad.append(("semver-rendering-not-fixed-point", "%r (rendered from %r) re-renders as %r" % (q, p, q2), case))
    return dict(n=n, bad=bad)


def work_semver_fixed(bins, strings):
    """arbitrary accepted SemVer -> PEP 440 rendering must be a fixed point and valid."""
    pr = core.worker_probe(bins)
    bad = []
    n = 0
    for s in strings:
        n += 1
        case = dict(kind="semver_fp", input=s)
        k, r = _res(call(pr, s, "semver", "pep440"))
        if k == "panic":
            bad.append(("panic@" + r.split(":")[0], "render %r panicked: %s" % (s, r), case))
            continue
        if k != "ok":
            continue   # refusing an arbitrary SemVer is not claimed against
        if P.parse(r) is None or P.normal(P.parse(r)) != r:
            bad.append(("conversion-output-malformed", "render %r -> pep440 gave %r which is not normalised PEP 440" % (s, r), case))
            continue
        k2, r2 = _res(call(pr, r, "pep440", "pep440"))
        n += 1
        if k2 != "ok" or r2 != r:
            bad.append(("pep440-rendering-not-fixed-point", "%r (from %r) re-renders as %r" % (r, s, r2), case))
    return dict(n=n, bad=bad)


SLOTS = ["major", "minor", "patch", "epoch", "pre", "post", "dev"]


def work_no_silent_change(bins, cases):
    """cases: (fields, slot) with one numeric slot set to a number outside the target range."""
    pr = core.worker_probe(bins)
    bad = []
    n = 0
    outcomes = {"refused": 0, "exact": 0}
    for f, slot in cases:
        s = canon_semver(f)
        p = canon_pep440(f)
        big = f[slot][1] if slot == "pre" else f[slot]
        trials = [(s, "semver", "semver"), (s, "semver", "pep440")]
        trials += [(p, "pep440", "semver"), (p, "pep440", "pep440")]
        pv = P.parse(p)
        if pv is not None:
            import random as _r
            alt = P.spell(pv, _r.Random(p), max_rel=3)       # e.g. the implicit post form X.Y-N, alpha/c/rev spellings, separators
            if P.parse(alt) is not None and P.key_pep440(P.parse(alt)) == P.key_pep440(pv):
                trials += [(alt, "pep440", "pep440"), (alt, "pep440", "semver")]
        for inp, fi, fo in trials:
            n += 1
            k, out = _res(call(pr, inp, fi, fo))
            case = dict(kind="big", fields=f, slot=slot, step=[inp, fi, fo])
            if k == "panic":
                bad.append(("panic@" + out.split(":")[0], "render %r panicked: %s" % (inp, out), case))
                continue
            if k != "ok":
                if fi == "semver" and fo == "semver" and big <= U64:
                    # "converts to SemVer unchanged": every number up to u64 is representable on the SemVer-only path
                    bad.append(("canonical-semver-refused", "render %r -f semver --output-format semver refused although the %s number %d fits u64: %s" % (inp, slot, big, out[:120]), case))
                outcomes["refused"] += 1
                continue
            got = fields_of_semver(out) if fo == "semver" else fields_of_pep440(out)
            want = {k_: f[k_] for k_ in SLOTS}
            if got is None or {k_: got[k_] for k_ in SLOTS} != want:
                sig = "u32-narrowing-in-render" if big <= U64 else ("semver-numeric-overflow-to-zero" if fi == "semver" else "pep440-overflow-to-zero")
                bad.append((sig, "render %r -f %s --output-format %s printed %r: the %s number %d was silently changed or moved" % (inp, fi, fo, out, slot, big), case))
            else:
                outcomes["exact"] += 1
    return dict(n=n, bad=bad, outcomes=outcomes)


def work_mirror(bins, items):
    """probe vs. binary on the same render request"""
    pr = core.worker_probe(bins)
    dis = []
    for inp, fi, fo in items:
        k, out = _res(call(pr, inp, fi, fo))
        r = core.run_zerv(bins, ["render", "--input-format", fi, "--output-format", fo, "--", inp])
        if r["timeout"]:
            continue
        if k == "ok":
            if r["exit"] != 0 or r["out"] != out + "\n":
                dis.append((inp, fi, fo, k, out, r))
        elif k == "err":
            if r["exit"] == 0:
                dis.append((inp, fi, fo, k, out, r))
        else:
            if r["exit"] != 101 and "panicked" not in r["err"]:
                dis.append((inp, fi, fo, k, out, r))
    return dict(n=len(items), dis=dis)


def gen_pep(rng):
    nums = [0, 1, 2, 9, 10, 2 ** 31, 2 ** 32 - 1]
    v = dict(epoch=rng.choice([0, 0, 0, 1, 7, 2 ** 32 - 1]),
             release=tuple(rng.choice(nums) for _ in range(rng.choice([1, 2, 3, 3]))),
             pre=rng.choice([None, None] + [(l, rng.choice(nums)) for l in ("a", "b", "rc")]),
             post=rng.choice([None, None] + nums), dev=rng.choice([None, None] + nums),
             local=rng.choice([None, None, (1,), ("a",), ("ubuntu", 1), (0, "x", 10), ("abc", "def", 7, 0), (2 ** 32 - 1,), ("a1", "1a"),
                               ("0a1b2c3",), ("00a", 0), ("0x1f", 7), ("g0a1b2c3d",), ("0", "00a0")]))
    return P.spell(v, rng, max_rel=3) if rng.random() < 0.7 else P.normal(v)


def gen_any_semver(rng):
    from .c08 import gen_version
    while True:
        s = gen_version(rng)
        v = S.parse(s, allow_v=True)
        if v is not None and all(n <= U32 for n in S.numeric_fields(v)) and not any(b.isdigit() and int(b) > U32 for b in (v[4] or [])):
            return s


def run(ctx):
    quick = ctx.tier == "quick"
    rng = ctx.sub_rng("c07")
    ncanon = 25000 if quick else 800000
    canon = [gen_fields(rng, U32, epoch0=True) for _ in range(ncanon)]
    npep = 25000 if quick else 800000
    peps = sorted(set(gen_pep(rng) for _ in range(npep)))
    nsem = 15000 if quick else 600000
    sems = sorted(set(gen_any_semver(rng) for _ in range(nsem)))
    bigs = []
    for _ in range(4000 if quick else 120000):
        f = gen_fields(rng, U32)
        slot = rng.choice(SLOTS)
        b = rng.choice(BIG)
        if slot == "pre":
            f["pre"] = (rng.choice(["alpha", "beta", "rc"]), b)
        else:
            f[slot] = b
        bigs.append((f, slot))
    # u64-range SemVer-only path: canonical shapes with numbers up to u64 must survive semver->semver
    wide = [gen_fields(rng, U64) for _ in range(4000 if quick else 120000)]
    allbad = []
    for r in core.pmap(work_canonical, [(ctx.bins, p) for p in core.split_even(canon, 32)]):
        ctx.evaluations += r["n"]
        ctx.count("canonical_conversions", r["n"])
        allbad += r["bad"]
    plong = sorted(set(gen_pep_long(rng) for _ in range(3000 if quick else 60000)))
    for r in core.pmap(work_pep_long, [(ctx.bins, p) for p in core.split_even(plong, 16)]):
        ctx.evaluations += r["n"]
        ctx.count("pep440_long_release_conversions", r["n"])
        for sig, why, case in r["bad"]:
            ctx.refute(sig, why, case)
    for r in core.pmap(work_pep_roundtrip, [(ctx.bins, p) for p in core.split_even(peps, 32)]):
        ctx.evaluations += r["n"]
        ctx.count("pep440_roundtrip_steps", r["n"])
        allbad += r["bad"]
    for r in core.pmap(work_semver_fixed, [(ctx.bins, p) for p in core.split_even(sems, 32)]):
        ctx.evaluations += r["n"]
        ctx.count("semver_to_pep440_fixed_point_steps", r["n"])
        allbad += r["bad"]
    for r in core.pmap(work_no_silent_change, [(ctx.bins, p) for p in core.split_even(bigs, 16)]):
        ctx.evaluations += r["n"]
        ctx.count("out_of_range_conversions", r["n"])
        ctx.count("out_of_range_refused", r["outcomes"]["refused"])
        ctx.count("out_of_range_printed_exactly", r["outcomes"]["exact"])
        allbad += r["bad"]
    for r in core.pmap(work_wide, [(ctx.bins, p) for p in core.split_even(wide, 16)]):
        ctx.evaluations += r["n"]
        ctx.count("u64_semver_only_conversions", r["n"])
        allbad += r["bad"]
    mirror = [(canon_semver(f), "semver", "pep440") for f in canon[:150]] + [(p, "pep440", "semver") for p in peps[:150]] + \
             [(canon_semver(f), "semver", "semver") for f, _ in bigs[:100]]
    if not quick:
        mirror = mirror * 1 + [(p, "auto", "pep440") for p in peps[150:1500]]
    nd = 0
    for r in core.pmap(work_mirror, [(ctx.bins, p) for p in core.split_even(mirror, 16)]):
        ctx.count("probe_vs_binary_mirrored", r["n"])
        nd += len(r["dis"])
        if r["dis"]:
            ctx.notes.append("probe/binary disagreement: %r" % (r["dis"][0],))
    if nd:
        raise core.Inconclusive("probe and binary disagree on %d render requests (harness error)" % nd)
    for sig, why, case in allbad:
        ctx.refute(sig, why, case)
    ctx.distinct_extra += len(set(canon_semver(f) for f in canon)) + len(peps) + len(sems)
    ctx.sample(dict(canonical=canon_semver(canon[0]), pep440=canon_pep440(canon[0])))
    ctx.sample(dict(pep440_spelling=peps[len(peps) // 2]))
    ctx.sample(dict(out_of_range=canon_semver(bigs[0][0]), slot=bigs[0][1]))
    ctx.rule = ("%d canonical-shape versions (numbers <= 2^32-1) x 5 conversions; %d PEP 440 spellings with <=3 release numbers: ->semver->pep440 equality "
                "under the real PEP 440 key plus both fixed points and normal form; %d arbitrary accepted SemVer strings -> PEP 440 fixed point; %d shapes "
                "with one numeric slot out of range x 4 conversions (refusal or exact reappearance); %d u64-range shapes semver->semver. "
                "non-trivial = distinct generated versions" % (len(canon), len(peps), len(sems), len(bigs), len(wide)))
    ctx.assumptions = ["expected strings are assembled from the generated fields, never from zerv's parsers",
                       "refusing to convert an arbitrary (non-canonical) SemVer is not counted against the property"]


def work_wide(bins, cases):
    pr = core.worker_probe(bins)
    bad = []
    n = 0
    for f in cases:
        s = canon_semver(f)
        n += 1
        k, out = _res(call(pr, s, "semver", "semver"))
        case = dict(kind="wide", fields=f)
        if k == "panic":
            bad.append(("panic@" + out.split(":")[0], "render %r panicked: %s" % (s, out), case))
        elif k == "ok" and out != s:
            big = [x for x in S.numeric_fields(S.parse(s)) if x > U32]
            sig = "u32-narrowing-in-render" if big else "conversion-differs"
            bad.append((sig, "canonical SemVer %r (u64 range) re-rendered as %r" % (s, out), case))
        elif k == "err":
            if all(x <= U64 for x in S.numeric_fields(S.parse(s))):
                bad.append(("canonical-semver-refused", "canonical SemVer %r (all numbers within u64) refused on semver -> semver: %s" % (s, out[:120]), case))
    return dict(n=n, bad=bad)


def replay(ctx, doc):
    c = doc["case"]
    k = c["kind"]
    if k == "canonical":
        r = work_canonical(ctx.bins, [c["fields"]])
    elif k == "pep":
        r = work_pep_long(ctx.bins, [c["input"]]) if c.get("kind") == "peplong" else work_pep_roundtrip(ctx.bins, [c["input"]])
    elif k == "semver_fp":
        r = work_semver_fixed(ctx.bins, [c["input"]])
    elif k == "big":
        f = c["fields"]
        if f.get("pre"):
            f["pre"] = tuple(f["pre"])
        r = work_no_silent_change(ctx.bins, [(f, c["slot"])])
    else:
        f = c["fields"]
        if f.get("pre"):
            f["pre"] = tuple(f["pre"])
        r = work_wide(ctx.bins, [f])
    for b in r["bad"]:
        print(b[0], b[1])
    if r["bad"]:
        print("VIOLATION property=C07 replay=%s" % doc.get("_path", "?"))
        return 1
    print("no disagreement")
    return 0
