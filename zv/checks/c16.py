"""C16 — the sanitiser contract.

Observation: probe op `sanitize` (= zerv::utils::sanitize::Sanitizer::sanitize on the
real library).  Oracle: zv.refs.sanitize (written from the statement)."""
import itertools

from .. import core, gen
from ..refs import sanitize as ref

ALPHABET = ["0", "1", "a", "B", "é", "-", "/", ".", "_"]
SEPS = [".", "-", "_", "--", "-.", "\u00b7", "---", "-.-", "....", None]   # the statement says "a non-alphanumeric separator": also several characters, also non-ASCII
MAXLENS = [None, 0, 1, 2, 3, 5]
MINIMUMS = (50000, 1000)


def settings():
    out = []
    for sep in SEPS:
        for lower in (False, True):
            for kz in (False, True):
                for ml in MAXLENS:
                    out.append(dict(separator=sep, lowercase=lower, keep_zeros=kz, max_length=ml))
    return out


def judge(cfg, s, out):
    """Returns None if fine, else (signature, reason)."""
    if isinstance(out, dict):
        if "panic" in out:
            return ("panic@" + _loc(out.get("at", "?")), "panic: %s" % out.get("panic"))
        return ("probe-error", repr(out))
    sep, lower, kz, ml = cfg["separator"], cfg["lowercase"], cfg["keep_zeros"], cfg["max_length"]
    if sep is None:
        if ml is not None and len(out) > ml:
            return ("sanitize-too-long", "len %d > max_length %d" % (len(out), ml))
        # without a separator the whole text is the one segment the leading-zero clause speaks about
        if not kz and len(out) > 1 and out.isascii() and out.isdigit() and out[0] == "0":
            return ("sanitize-leading-zero-no-separator", "all-digit result %r keeps a leading zero although zeros are not kept" % out)
        if lower and any("A" <= ch <= "Z" for ch in out):
            return ("sanitize-lowercase-ignored", "lowercase was asked for, %r still has upper-case ASCII letters" % out)
        return None
    adm = ref.admissible(s, sep, lower, kz, ml)
    if out in adm:
        bad = ref.predicates(out, sep, kz, ml)
        if bad:
            return ("sanitize-predicate", "predicates failed: %s" % bad)
        return None
    sig = "sanitize-non-ascii" if not s.isascii() else "sanitize-mismatch"
    return (sig, "expected one of %r" % sorted(adm))


def _loc(at):
    # strip line number and repo prefix: /repo/src/utils/sanitize.rs:107 -> src/utils/sanitize.rs
    at = at.rsplit(":", 1)[0]
    i = at.find("src/")
    return at[i:] if i >= 0 else at


def work(bins, cfg, strings):
    pr = core.worker_probe(bins)
    req = dict(op="sanitize", strings=strings)
    req.update({k: v for k, v in cfg.items() if v is not None})
    rep = pr.call(req)
    if "results" not in rep:
        raise core.Inconclusive("probe reply without results: %r" % (rep,))
    res = rep["results"]
    bad = []
    nontrivial = 0
    outs = set()
    counters = {"nonascii_inputs": 0, "truncated": 0, "second_window": 0}
    for s, out in zip(strings, res):
        v = judge(cfg, s, out)
        if v is not None:
            if len(bad) < 50:
                bad.append((v[0], v[1], s, out))
            else:
                bad.append((v[0], None, None, None))
        if isinstance(out, str):
            outs.add(out)
            if out != s:
                nontrivial += 1
            if not s.isascii():
                counters["nonascii_inputs"] += 1
            if cfg["separator"] is not None and cfg["max_length"] is not None:
                f = ref.full(s, cfg["separator"], cfg["lowercase"], cfg["keep_zeros"])
                if len(f) > cfg["max_length"]:
                    counters["truncated"] += 1
                if out != ref.sanitize(s, cfg["separator"], cfg["lowercase"], cfg["keep_zeros"], cfg["max_length"]):
                    counters["second_window"] += 1
    # idempotence on the distinct outputs
    outs = sorted(outs)
    idem_bad = []
    if outs:
        req2 = dict(req)
        req2["strings"] = outs
        rep2 = pr.call(req2)
        for o, o2 in zip(outs, rep2.get("results", [])):
            if o2 != o:
                # with max_length the second pass may legitimately not change anything either; any change is a violation
                idem_bad.append((o, o2))
    return dict(n=len(strings), bad=bad, nontrivial=nontrivial, idem=idem_bad[:20], idem_n=len(outs), counters=counters)


def work_uint(bins, strings):
    pr = core.worker_probe(bins)
    bad = []
    for kz in (False,):
        rep = pr.call(dict(op="sanitize", preset="uint", strings=strings))
        for s, out in zip(strings, rep["results"]):
            exp = ref.uint(s, kz)
            if out not in ref.uint_admissible(s, kz):
                if isinstance(out, dict) and "panic" in out:
                    bad.append(("panic@" + _loc(out.get("at", "?")), "panic %s" % out["panic"], s, out))
                else:
                    bad.append(("uint-mismatch" if s.isascii() else "uint-non-ascii", "expected %r" % exp, s, out))
    return dict(n=len(strings), bad=bad)


def work_preset(bins, preset, strings):
    pr = core.worker_probe(bins)
    cfg = dict(separator=".", lowercase=(preset != "semver_str"), keep_zeros=False, max_length=None)
    rep = pr.call(dict(op="sanitize", preset=preset, strings=strings))
    bad = []
    for s, out in zip(strings, rep["results"]):
        v = judge(cfg, s, out)
        if v is not None:
            bad.append((v[0], v[1] + " [preset %s]" % preset, s, out))
    return dict(n=len(strings), bad=bad)


TPL_COMBOS = [
    ("", dict(separator=".", lowercase=False, keep_zeros=False, max_length=None)),
    ("preset='semver'", dict(separator=".", lowercase=False, keep_zeros=False, max_length=None)),
    ("preset='dotted'", dict(separator=".", lowercase=False, keep_zeros=False, max_length=None)),
    ("preset='pep440'", dict(separator=".", lowercase=True, keep_zeros=False, max_length=None)),
    ("preset='lower_dotted'", dict(separator=".", lowercase=True, keep_zeros=False, max_length=None)),
    ("separator='-'", dict(separator="-", lowercase=False, keep_zeros=False, max_length=None)),
    ("separator='_', lowercase=true", dict(separator="_", lowercase=True, keep_zeros=False, max_length=None)),
    ("separator='.', keep_zeros=true", dict(separator=".", lowercase=False, keep_zeros=True, max_length=None)),
    ("separator='-', max_length=3", dict(separator="-", lowercase=False, keep_zeros=False, max_length=3)),
    ("separator='.', lowercase=true, keep_zeros=false, max_length=5", dict(separator=".", lowercase=True, keep_zeros=False, max_length=5)),
    ("separator='_', max_length=0", dict(separator="_", lowercase=False, keep_zeros=False, max_length=0)),
    ("separator='.', max_length=1", dict(separator=".", lowercase=False, keep_zeros=False, max_length=1)),
    ("max_length=2", dict(separator=None, lowercase=False, keep_zeros=False, max_length=2)),
    ("max_length=0", dict(separator=None, lowercase=False, keep_zeros=False, max_length=0)),
    ("max_length=7", dict(separator=None, lowercase=False, keep_zeros=False, max_length=7)),
    ("lowercase=false, max_length=4", dict(separator=None, lowercase=False, keep_zeros=False, max_length=4)),
    ("keep_zeros=true, max_length=3", dict(separator=None, lowercase=False, keep_zeros=True, max_length=3)),
    ("separator='--', max_length=3", dict(separator="--", lowercase=False, keep_zeros=False, max_length=3)),
    ("separator='-.', lowercase=true, max_length=6", dict(separator="-.", lowercase=True, keep_zeros=False, max_length=6)),
    ("separator='\u00b7', max_length=4", dict(separator="\u00b7", lowercase=False, keep_zeros=False, max_length=4)),
    ("separator='::'", dict(separator="::", lowercase=False, keep_zeros=False, max_length=None)),
    ("lowercase=true", dict(separator=None, lowercase=True, keep_zeros=False, max_length=None)),
    ("lowercase=true, keep_zeros=true", dict(separator=None, lowercase=True, keep_zeros=True, max_length=None)),
    ("separator='---', max_length=4", dict(separator="---", lowercase=False, keep_zeros=False, max_length=4)),
    ("separator='___', max_length=9", dict(separator="___", lowercase=False, keep_zeros=False, max_length=9)),
    ("separator='-.-', max_length=5", dict(separator="-.-", lowercase=False, keep_zeros=False, max_length=5)),
]
# argument combinations zerv refuses today (a preset together with custom knobs): a refusal is fine, but a value that comes back is a sanitiser result
# and is judged against the contract of the preset with that knob
OPT_COMBOS = [
    ("preset='dotted', max_length=8", dict(separator=".", lowercase=False, keep_zeros=False, max_length=8)),
    ("preset='dotted', max_length=6", dict(separator=".", lowercase=False, keep_zeros=False, max_length=6)),
    ("preset='semver', max_length=3", dict(separator=".", lowercase=False, keep_zeros=False, max_length=3)),
    ("preset='pep440', max_length=5", dict(separator=".", lowercase=True, keep_zeros=False, max_length=5)),
    ("preset='lower_dotted', max_length=1", dict(separator=".", lowercase=True, keep_zeros=False, max_length=1)),
    ("preset='dotted', max_length=0", dict(separator=".", lowercase=False, keep_zeros=False, max_length=0)),
    ("preset='dotted', keep_zeros=true", dict(separator=".", lowercase=False, keep_zeros=True, max_length=None)),
    ("preset='dotted', lowercase=true", dict(separator=".", lowercase=True, keep_zeros=False, max_length=None)),
    ("preset='pep440', lowercase=false", dict(separator=".", lowercase=False, keep_zeros=False, max_length=None)),
    ("preset='semver', separator='-'", dict(separator="-", lowercase=False, keep_zeros=False, max_length=None)),
]
TL, TR = "\u2039", "\u203a"


def work_template(bins, strings):
    """the template function sanitize(...) is the same contract seen through Tera"""
    from .. import ron
    pr = core.worker_probe(bins)
    tpl = "".join("%s{{ sanitize(value=bumped_branch%s) }}%s" % (TL, (", " + a) if a else "", TR) for a, _ in TPL_COMBOS)
    schema = dict(core=[("var", "Major")], extra_core=[], build=[])
    bad = []
    n = nopt = opt_refused = opt_answered = 0
    for s_ in strings:
        if TL in s_ or TR in s_ or "\x00" in s_:
            continue
        text = ron.zerv_to_ron(schema, dict(major=1, bumped_branch=s_, custom={}))
        rep = pr.call(dict(op="template", template=tpl, ron=text))
        if "panic" in rep:
            bad.append(("panic@" + _loc(rep.get("at", "?")), "template sanitize panicked: %s" % rep["panic"], s_, None))
            continue
        out = rep.get("ok")
        parts = []
        if isinstance(out, str):
            i = 0
            while True:
                a = out.find(TL, i)
                if a < 0:
                    break
                b = out.find(TR, a + 1)
                if b < 0:
                    break
                parts.append(out[a + 1:b])
                i = b + 1
        if len(parts) != len(TPL_COMBOS):
            bad.append(("template-sanitize-failed", "template with documented sanitize() calls failed: %r" % (rep,), s_, None))
            continue
        for (args, cfg), got in zip(TPL_COMBOS, parts):
            n += 1
            v = judge(cfg, s_, got)
            if v is not None:
                bad.append((v[0], "template sanitize(value=%r, %s) = %r; %s" % (s_, args, got, v[1]), s_, got))
        nopt += 1
        if nopt % 4 == 0:
            for args, cfg in OPT_COMBOS:
                rep = pr.call(dict(op="template", template="%s{{ sanitize(value=bumped_branch, %s) }}%s" % (TL, args, TR), ron=text))
                if "panic" in rep:
                    bad.append(("panic@" + _loc(rep.get("at", "?")), "template sanitize(%s) panicked: %s" % (args, rep["panic"]), s_, None))
                    continue
                out = rep.get("ok")
                if not isinstance(out, str) or not (out.startswith(TL) and out.endswith(TR)):
                    opt_refused += 1            # refused (today's behaviour): nothing to judge
                    continue
                n += 1
                opt_answered += 1
                v = judge(cfg, s_, out[1:-1])
                if v is not None:
                    bad.append((v[0], "template sanitize(value=%r, %s) = %r; %s" % (s_, args, out[1:-1], v[1]), s_, out[1:-1]))
    return dict(n=n, bad=bad, opt_refused=opt_refused, opt_answered=opt_answered)


def enumerate_strings(maxlen):
    out = []
    for n in range(0, maxlen + 1):
        for t in itertools.product(ALPHABET, repeat=n):
            out.append("".join(t))
    return out


def run(ctx):
    quick = ctx.tier == "quick"
    L = 5 if quick else 6
    allcfg = settings()
    base = enumerate_strings(5)
    jobs = []
    for cfg in allcfg:
        for part in core.split_even(base, 4):
            jobs.append((ctx.bins, cfg, part))
    if not quick:
        layer6 = ["".join(t) for t in itertools.product(ALPHABET, repeat=6)]
        rng = ctx.sub_rng("layer6")
        for cfg in allcfg:
            for part in core.split_even(layer6, 16):
                jobs.append((ctx.bins, cfg, part))
    # random Unicode
    rng = ctx.sub_rng("unicode")
    nrand = 4000 if quick else 200000
    rand = [gen.random_unicode(rng, 14) for _ in range(nrand // 2)] + [gen.hostile_text(rng) for _ in range(nrand // 2)]
    rng.shuffle(rand)        # the slices taken below (rand[:N]) must meet both kinds
    for cfg in allcfg:
        sub = rng.sample(rand, 400 if quick else 12000)
        jobs.append((ctx.bins, cfg, sub))
    results = core.pmap(work, jobs)
    nsamples = 0
    for (b, cfg, strings), r in zip(jobs, results):
        ctx.evaluations += r["n"] + r["idem_n"]
        ctx.distinct_extra += r["nontrivial"]
        ctx.merge_counts(r["counters"])
        ctx.count("idempotence_checks", r["idem_n"])
        for sig, why, s, out in r["bad"]:
            if why is None:
                ctx.violations.append((sig, None))
                continue
            ctx.refute(sig, "sanitize(%r, %r) = %r; %s" % (s, cfg, out, why), dict(kind="sanitize", cfg=cfg, input=s), observed=out, expected=why)
        for o, o2 in r["idem"]:
            ctx.refute("sanitize-not-idempotent", "sanitize(%r) = %r under %r" % (o, o2, cfg), dict(kind="sanitize", cfg=cfg, input=o), observed=o2, expected=o)
        if nsamples < 6 and strings and len(strings[-1]) > 2:
            ctx.sample(dict(cfg=cfg, input=strings[-1], expected=sorted(ref.admissible(strings[-1], cfg["separator"] or "", cfg["lowercase"], cfg["keep_zeros"], cfg["max_length"])) if cfg["separator"] else "len<=max"))
            nsamples += 1
    # integer sanitiser + presets
    ustr = ["".join(t) for n in range(0, 5) for t in itertools.product(["+", "-", "0", "1", "9", " ", "a", "."], repeat=n)]
    ustr += ["18446744073709551615", "18446744073709551616", "0018446744073709551616", "9" * 30, "0" * 25 + "7", "+18446744073709551616", "4294967296", "+4294967296",
             "\t12\n", "12\n", "\u00a012", "1_000", "1e3", "0x1f", "٠", "١٢", "１", "²", "+0", "-0", "+", "++1", "+ 1", "1+", "٣+"]
    ustr += [s for s in base if len(s) <= 4] + [" 7 ", "\t007\n", "٣", "１２", "𝟘", "1_0", "+1", "-1", "1e3", "0x10", " ", "007", "000"] + rand[:2000]
    ujobs = [(ctx.bins, part) for part in core.split_even(ustr, 8)]
    for (b, strings), r in zip(ujobs, core.pmap(work_uint, ujobs)):
        ctx.evaluations += r["n"]
        ctx.count("uint_calls", r["n"])
        for sig, why, s, out in r["bad"]:
            ctx.refute(sig, "uint sanitize(%r) = %r; %s" % (s, out, why), dict(kind="uint", input=s), observed=out, expected=why)
    pjobs = [(ctx.bins, p, part) for p in ("semver_str", "pep440_local_str", "key") for part in core.split_even(base[:7381] + rand[:3000], 4)]
    for (b, p, strings), r in zip(pjobs, core.pmap(work_preset, pjobs)):
        ctx.evaluations += r["n"]
        ctx.count("preset_calls", r["n"])
        for sig, why, s, out in r["bad"]:
            ctx.refute(sig, "%s sanitize(%r) = %r; %s" % (p, s, out, why), dict(kind="preset", preset=p, input=s), observed=out, expected=why)
    tstr = [x for x in base if len(x) <= 4][::3] + rand[:1500] + ["feature/long-branch-name", "/hotfix/login", "build-00a7", "feature/new-login", "-00a", "_ab_00x", "feature/test-branch", "rel-007x", "ab/cdef.gh", "a.b.c.d.e.f"]
    for r in core.pmap(work_template, [(ctx.bins, p) for p in core.split_even(tstr, 16)]):
        ctx.evaluations += r["n"]
        ctx.count("template_function_calls", r["n"])
        ctx.count("template_preset_with_knob_refused", r.get("opt_refused", 0))
        ctx.count("template_preset_with_knob_answered_and_judged", r.get("opt_answered", 0))
        for sig, why, s_, out in r["bad"]:
            ctx.refute(sig, why, dict(kind="template", input=s_), observed=out)
    ctx.exhaustive = True
    ctx.rule = ("exhaustive strings over %r up to length %d x %d settings (separator x lowercase x keep_zeros x max_length)%s, plus %d random "
                "Unicode / hostile strings per setting, the integer sanitiser, the three named presets and the template function sanitize(...) in %d argument combinations; every output re-sanitised "
                "(idempotence). non-trivial = (setting, input) pairs whose output differs from the input" % (
                    "".join(ALPHABET), 5, len(allcfg), "" if quick else " and the complete length-6 layer", 400 if quick else 12000, len(TPL_COMBOS)))
    ctx.assumptions = ["the probe links the zerv library built from /repo's working tree; Sanitizer::sanitize is called directly",
                       "two admissible truncation windows for inputs starting with a non-alphanumeric character (DESIGN C16)",
                       "separator=None: only length, idempotence and no-panic are asserted"]


def replay(ctx, doc):
    case = doc["case"]
    pr = core.Probe(ctx.bins)
    if case["kind"] == "sanitize":
        cfg = case["cfg"]
        req = dict(op="sanitize", strings=[case["input"]])
        req.update({k: v for k, v in cfg.items() if v is not None})
        out = pr.call(req)["results"][0]
        v = judge(cfg, case["input"], out)
        print("sanitize(%r, %r) -> %r ; verdict: %s" % (case["input"], cfg, out, v))
    elif case["kind"] == "template":
        r = work_template(ctx.bins, [case["input"]])
        v = r["bad"][0][:2] if r["bad"] else None
        print(r["bad"][:3])
    elif case["kind"] == "uint":
        out = pr.call(dict(op="sanitize", preset="uint", strings=[case["input"]]))["results"][0]
        exp = sorted(ref.uint_admissible(case["input"]))
        v = None if out in exp else ("uint-mismatch", exp)
        print("uint(%r) -> %r expected %r" % (case["input"], out, exp))
    else:
        out = pr.call(dict(op="sanitize", preset=case["preset"], strings=[case["input"]]))["results"][0]
        cfg = dict(separator=".", lowercase=(case["preset"] != "semver_str"), keep_zeros=False, max_length=None)
        v = judge(cfg, case["input"], out)
        print("%s(%r) -> %r ; verdict: %s" % (case["preset"], case["input"], out, v))
    pr.close()
    if v is not None:
        print("VIOLATION property=C16 replay=%s" % doc.get("_path", "?"))
        return 1
    return 0
