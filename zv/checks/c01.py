"""C01 — every emitted version string is well-formed in the requested format.

Observation: stdout / exit status of the real binary (sources none, stdin RON, git), then the
binary's own `check` and - for preset schemas - `render` on what it printed.
Oracle: independent recognisers zv.refs.semver (SemVer 2.0.0, no `v`) and zv.refs.pep440
(Appendix B + own normaliser: the string must equal its normal form and be ASCII)."""
import json
import os
import random
import shutil

from .. import core, gen, gitmodel, objgen, ron
from ..refs import pep440 as P
from ..refs import render as R
from ..refs import semver as S
from . import c05, c07

MINIMUMS = (1500, 300)
PREFIXES = [None, None, "v", "release-", "V", "é", "ver ", "0", "1", "2", "9", "10", "1.", "0.", "4294967295", "1.0.0-", "1!"]
U64 = 2 ** 64 - 1


def wellformed(fmt, v):
    """-> None or reason"""
    if not v.isascii():
        return "contains non-ASCII characters"
    if fmt == "semver":
        if S.parse(v, allow_v=False) is None:
            return "is not valid SemVer 2.0.0"
        return None
    pv = P.parse(v)
    if pv is None:
        return "is not valid PEP 440"
    if P.normal(pv) != v:
        return "is not normalised PEP 440 (normal form %r)" % P.normal(pv)
    return None


def has_oversized_numeric(fmt, v):
    if fmt == "semver":
        pv = S.parse(v, allow_v=False)
        return pv is not None and pv[3] is not None and any(isinstance(x, int) and x > U64 for x in pv[3])
    return False


def hostile(rng):
    return gen.hostile_text(rng).replace("\x00", "")


def gen_case(rng):
    """-> dict(argv (without output options), stdin, preset (bool), fmt, prefix)"""
    fmt = rng.choice(["semver", "pep440"])
    prefix = rng.choice(PREFIXES)
    k = rng.random()
    stdin = None
    preset = False
    if k < 0.5:
        f = c07.gen_fields(rng, 2 ** 32 - 1)
        if rng.random() < 0.15:
            f[rng.choice(["major", "minor", "patch"])] = rng.choice([2 ** 32, 2 ** 63, 2 ** 64 - 1])
        tag = c07.canon_semver(f) if rng.random() < 0.5 or max(f["major"], f["minor"], f["patch"]) > 2 ** 32 - 1 else c07.canon_pep440(f)
        argv = ["--source", "none", "--tag-version", tag]
        if rng.random() < 0.06:
            # "arbitrary branch names": long ones too - the emitted version grows with them and zerv's own parser has to take it back
            n = rng.choice([600, 1030, 1100, 2100, 5000, 20000])
            argv += ["--bumped-branch=" + rng.choice(["feature/" + "x" * n, "/".join(["seg%d" % i for i in range(n // 5)]), "wip-" + "ab-" * (n // 3), "é" + "long/" * (n // 5) + "1"])]
        elif rng.random() < 0.75:
            argv += ["--bumped-branch=" + (hostile(rng))]
        if rng.random() < 0.6:
            argv += ["--bumped-commit-hash", rng.choice([hostile(rng), "g" + "".join(rng.choice("0123456789abcdef") for _ in range(rng.choice([3, 7, 8, 40]))), "0000000", "1234567" + "é"])]
        if rng.random() < 0.5:
            argv += ["--distance", str(rng.choice([0, 1, 7, 2 ** 32 - 1]))]
        if rng.random() < 0.4:
            argv += [rng.choice(["--dirty", "--no-dirty"])]
        if rng.random() < 0.3:
            argv += ["--bumped-timestamp", str(rng.choice([0, 1, 1710511845, 4102444800, 7258118399, 2 ** 40]))]
        if rng.random() < 0.4:
            argv += ["--custom", json.dumps({"build_id": hostile(rng), "env": rng.choice(["prod", "007", "Ünï"]), "meta": {"author": hostile(rng), "n": rng.choice([0, 7, 2 ** 40])}})]
    elif k < 0.9:
        schema = objgen.rand_schema(rng, ascii_only=False)
        v = objgen.rand_vars(rng, ascii_only=False, bound=rng.choice([2 ** 32, 2 ** 32, 2 ** 64]))
        stdin = ron.zerv_to_ron(schema, v)
        argv = ["--source", "stdin"]
    else:
        argv = None           # git: filled by the worker
    r = rng.random()
    sargs = []
    if r < 0.45:
        sargs = ["--schema", rng.choice(R.PRESETS)]
        preset = True
    elif r < 0.75:
        sargs = ["--schema-ron", ron.schema_to_ron(objgen.rand_schema(rng, ascii_only=False))]
    elif stdin is None:
        preset = True         # default schema = standard
    flags = []
    if rng.random() < 0.5:
        fs = c05.gen_flagset(rng, dict(core=[("var", "Major"), ("var", "Minor"), ("var", "Patch")], extra_core=[("var", "Epoch"), ("var", "PreRelease"), ("var", "Post")], build=[("var", "BumpedBranch")]))
        flags = [t for g in fs.groups[:4] for t in g]
        if any(t.startswith(("--core", "--extra-core", "--build", "--bump-core", "--bump-extra-core", "--bump-build")) for t in flags):
            preset = False        # literal components may have been rewritten: no longer the preset
    return dict(argv=argv, sargs=sargs, flags=flags, stdin=stdin, preset=preset, fmt=fmt, prefix=prefix, verbose=rng.random() < 0.1)


def judge_run(bins, env, cmd, c, extra_argv, cwd="/"):
    """runs one case; returns (list of (sig, why), stats-key)"""
    argv = [cmd] + (["-v"] if c.get("verbose") else []) + extra_argv + c["sargs"] + c["flags"] + ["--output-format", c["fmt"]]
    if c["prefix"] is not None:
        argv += ["--output-prefix", c["prefix"]]
    r = core.run_zerv(bins, argv, stdin=c["stdin"], env=env, cwd=cwd)
    case = dict(argv=argv, stdin=c["stdin"])
    if r["timeout"]:
        return [], "timeout", case
    if r["exit"] != 0:
        if r["exit"] == 101 or "panicked" in r["err"]:
            return [("panic-in-binary", r["err"][:200])], "panic", case
        return [], "refused", case
    out = r["out"]
    bad = []
    pre = c["prefix"] or ""
    if not out.endswith("\n") or out.count("\n") != 1 + pre.count("\n"):
        bad.append(("stdout-not-one-line", "stdout is %r" % out[:200]))
        return bad, "ok", case
    line = out[:-1]
    if not line.startswith(pre):
        bad.append(("prefix-missing", "stdout %r does not start with the prefix %r" % (line[:100], pre)))
        return bad, "ok", case
    v = line[len(pre):]
    why = wellformed(c["fmt"], v)
    if why:
        sig = "sanitize-non-ascii" if not v.isascii() else ("emitted-%s-malformed" % c["fmt"])
        bad.append((sig, "emitted %r %s" % (v, why)))
        return bad, "ok", case
    # zerv's own parser must accept what it printed
    r2 = core.run_zerv(bins, ["check", "--format", c["fmt"], "--", v], env=env)
    if r2["exit"] != 0:
        if has_oversized_numeric(c["fmt"], v) and "Invalid" in r2["err"]:
            bad.append(("semver-emits-numeric-identifier-above-u64", "emitted %r (valid SemVer 2.0.0) but `zerv check` rejects it: a numeric pre-release identifier exceeds u64" % v))
        else:
            bad.append(("own-check-rejects-output", "emitted %r but `zerv check --format %s` rejects it: %s" % (v, c["fmt"], r2["err"][:120])))
    elif "normalized:" in r2["out"]:
        bad.append(("own-check-normalises-output", "emitted %r but `zerv check` reports a different normal form: %r" % (v, r2["out"][:160])))
    if c["preset"] and r2["exit"] == 0:
        r3 = core.run_zerv(bins, ["render", "--input-format", c["fmt"], "--output-format", c["fmt"], "--", v], env=env)
        if r3["exit"] != 0 or r3["out"] != v + "\n":
            bad.append(("rerender-changes-output", "emitted %r; `render -f %s --output-format %s` gives exit %s %r" % (v, c["fmt"], c["fmt"], r3["exit"], r3["out"][:120] or r3["err"][:120])))
    return bad, "ok", case


def work(bins, seed, n):
    rng = random.Random(seed)
    env = core.base_env(bins)
    bad = []
    st = {"runs": 0, "emitted": 0, "refused": 0}
    distinct = set()
    samples = []
    for _ in range(n):
        c = gen_case(rng)
        if c["argv"] is None:
            continue
        cmd = "flow" if (rng.random() < 0.3 and (not c["sargs"] or c["sargs"][0] == "--schema-ron" or c["sargs"][1].startswith("standard"))) else "version"
        flags = c["flags"]
        if cmd == "flow":
            c = dict(c)
            c["flags"] = [t for t in flags if t.split("=")[0] in ("--major", "--minor", "--patch", "--epoch", "--post")]
            c["preset"] = c["preset"] and True
        res, kind, case = judge_run(bins, env, cmd, c, c["argv"])
        st["runs"] += 1
        src = "stdin" if c["stdin"] is not None else "none"
        if kind == "ok":
            st["emitted"] += 1
            st["emitted:%s:%s:%s" % (src, "preset" if c["preset"] else "custom", c["fmt"])] = st.get("emitted:%s:%s:%s" % (src, "preset" if c["preset"] else "custom", c["fmt"]), 0) + 1
            distinct.add(hash((tuple(case["argv"]), c["stdin"])))
            if len(samples) < 2:
                samples.append(dict(argv=case["argv"][:14]))
        elif kind == "refused":
            st["refused"] += 1
        for sig, why in res:
            bad.append((sig, why, case))
    return dict(bad=bad, st=st, distinct=len(distinct), samples=samples)


def work_git(bins, seed, idx, tmp):
    rng = random.Random("%s/%d" % (seed, idx))
    home = os.path.join(tmp, "g%d" % idx)
    path = os.path.join(home, "repo")
    os.makedirs(home, exist_ok=True)
    env = core.base_env(bins, home=home)
    bad = []
    st = {"runs": 0, "emitted": 0, "refused": 0}
    try:
        repo = None
        for repo in gitmodel.build_random(path, rng, rng.choice([8, 14])):
            pass
        for b in ("wip/é-日本", "Feature/UPPER_007", "release/0051", "x" * 60):
            try:
                repo.branch(b)
            except gitmodel.GitError:
                pass
        for _ in range(8):
            names = sorted(repo.branches)
            repo.checkout(rng.choice(names))
            if rng.random() < 0.5:
                repo.commit()
            dirt = rng.choice(["clean", "modified", "untracked", "unmerged", "staged_new"])
            repo.make_dirty(dirt)
            for _ in range(3):
                c = gen_case(rng)
                c["stdin"] = None
                if c["sargs"] and c["sargs"][0] == "--schema" and rng.random() < 0.5:
                    pass
                cmd = "flow" if (rng.random() < 0.4 and (not c["sargs"] or c["sargs"][0] == "--schema-ron" or c["sargs"][1].startswith("standard"))) else "version"
                if cmd == "flow":
                    c["flags"] = []
                res, kind, case = judge_run(bins, env, cmd, c, ["-C", path])
                st["runs"] += 1
                if kind == "ok":
                    st["emitted"] += 1
                    st["emitted:git"] = st.get("emitted:git", 0) + 1
                elif kind == "refused":
                    st["refused"] += 1
                for sig, why in res:
                    case["ops"] = list(repo.ops)
                    bad.append((sig, "[git] " + why, case))
            repo.clean()
    except gitmodel.GitError as e:
        raise core.Inconclusive("git generator: %s" % e)
    finally:
        shutil.rmtree(home, ignore_errors=True)
    return dict(bad=bad, st=st)


def run(ctx):
    quick = ctx.tier == "quick"
    per = 350 if quick else 15000
    for r in core.pmap(work, [(ctx.bins, "%s/%d/%d" % (ctx.prop, ctx.seed, i), per) for i in range(32)]):
        ctx.merge_counts(r["st"])
        ctx.evaluations += r["st"]["runs"]
        ctx.distinct_extra += r["distinct"]
        for sig, why, case in r["bad"]:
            ctx.refute(sig, why, case)
        for s in r["samples"][:1]:
            ctx.sample(s, cap=3)
    nrep = 24 if quick else 700
    for r in core.pmap(work_git, [(ctx.bins, "%s/%d" % (ctx.prop, ctx.seed), i, ctx.tmp) for i in range(nrep)]):
        ctx.merge_counts(r["st"])
        ctx.evaluations += r["st"]["runs"]
        ctx.distinct_extra += r["st"]["emitted"]
        for sig, why, case in r["bad"]:
            ctx.refute(sig, why, case)
    if not ctx.counters.get("emitted:git"):
        raise core.Inconclusive("no version was emitted from a git source")
    ctx.rule = ("%d runs of `zerv version` / `zerv flow` with source none (canonical tags, hostile Unicode text in branch / hash / custom JSON, numbers up to 2^64-1), "
                "stdin (random valid schemas x random variable assignments with Unicode text) and %d random git repositories (Unicode / upper-case / long branch "
                "names, dirty trees), under the 22 presets or random RON schemas, 0-4 override/bump flags, both formats, 16 prefixes (incl. digit prefixes that coincide with the start of the version), -v on a tenth of the runs; every emitted string is parsed "
                "by the independent recognisers, fed to `zerv check`, and for preset schemas re-rendered. non-trivial = distinct command lines that emitted a version" % (32 * per, nrep))
    ctx.assumptions = ["PEP 440 'normalised' = equals the output of the reference normaliser", "runs that zerv refuses (non-zero exit) are outside C01 and only counted"]


def replay(ctx, doc):
    c = doc["case"]
    r = core.run_zerv(ctx.bins, c["argv"], stdin=c.get("stdin"))
    print("exit=%s stdout=%r stderr=%r" % (r["exit"], r["out"][:400], r["err"][:300]))
    print(doc.get("what"))
    return 0
