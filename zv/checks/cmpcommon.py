"""All-pairs comparison monitor shared by C10 and C11.

The versions are sorted by the *reference* key; the expected comparison row of the
i-th version against the sorted list is then 'G'*lo + 'E'*eq + 'L'*hi, which can be
compared with the probe's answer at C speed.  Agreement with a reference total
order on every pair of a set implies antisymmetry, transitivity and totality on
that set."""
from .. import core


def work_rows(bins, fmt, rows_idx, strings, lo, hi):
    """rows_idx: indices of the rows this worker handles; lo/hi: for each index the
    half-open interval of positions with equal rank."""
    pr = core.worker_probe(bins)
    n = len(strings)
    bad = []
    cells = 0
    incons = 0
    for part in core.chunks(rows_idx, max(1, 4000000 // max(1, n))):
        rep = pr.call(dict(op="cmp_matrix", fmt=fmt, rows=[strings[i] for i in part], cols=strings))
        if "rows" not in rep:
            if "panic" in rep:
                bad.append(("panic@" + rep.get("at", "?").rsplit(":", 1)[0], "cmp panicked: %s" % rep["panic"], part[0], None, None))
                continue
            raise core.Inconclusive("cmp_matrix failed: %r" % (rep,))
        for i, got in zip(part, rep["rows"]):
            cells += n
            exp = "G" * lo[i] + "E" * (hi[i] - lo[i]) + "L" * (n - hi[i])
            if got == exp:
                continue
            # locate disagreeing cells
            k = 0
            for j in range(n):
                if got[j] != exp[j]:
                    k += 1
                    if got[j] == "!":
                        incons += 1
                    if len(bad) < 30:
                        bad.append(("cmp", None, i, j, got[j] + exp[j]))
                    else:
                        bad.append(("cmp", None, None, None, None))
                    if k > 5:
                        break
    return dict(cells=cells, bad=bad, incons=incons)


def all_pairs(ctx, fmt, strings, keyfn, label):
    """strings: list of version strings (all must parse in zerv and in the oracle).
    keyfn(string) -> reference key."""
    keyed = sorted(((keyfn(s), s) for s in strings), key=lambda t: t[0])
    keys = [k for k, _ in keyed]
    strs = [s for _, s in keyed]
    n = len(strs)
    lo = [0] * n
    hi = [0] * n
    i = 0
    classes = 0
    while i < n:
        j = i
        while j < n and keys[j] == keys[i]:
            j += 1
        for t in range(i, j):
            lo[t], hi[t] = i, j
        classes += 1
        i = j
    parts = core.split_even(list(range(n)), core.NCPU * 2)
    res = core.pmap(work_rows, [(ctx.bins, fmt, p, strs, lo, hi) for p in parts])
    out = []
    for r in res:
        ctx.evaluations += r["cells"]
        ctx.count(label + "_pairs", r["cells"])
        for b in r["bad"]:
            out.append(b)
    ctx.count(label + "_versions", n)
    ctx.count(label + "_equivalence_classes", classes)
    return strs, out
