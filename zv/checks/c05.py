"""C05 — override, bump and reset semantics follow the precedence order.

Observation: probe `cli` (the real run_version_pipeline) with --output-format zerv, mirrored
on the real binary for a seeded sample.  Oracle: zv.refs.bump applied to the start state
that zerv itself reports for the same command line without component flags, plus the
flag-order metamorphic check and the model-free "no higher level changes" invariant."""
import random

from .. import core, objgen, ron
from ..refs import bump as B
from ..refs import render as R
from . import c07

MINIMUMS = (2000, 300)
AMOUNTS = [None, 0, 1, 2, 7, 2 ** 32 - 1]
NAME_FLAG = {"Epoch": "epoch", "Major": "major", "Minor": "minor", "Patch": "patch", "Post": "post", "Dev": "dev", "PreReleaseNum": "pre-release-num"}
SEC_FLAG = {"Core": "core", "ExtraCore": "extra-core", "Build": "build"}


class FlagSet:
    def __init__(self):
        self.groups = []      # list of argv token lists, order is free
        self.flags = B.Flags()
        self.expect_refusal_reason = None   # set when the CLI layer itself must refuse (conflicts)
        self.tilde_bump = False
        self.none_label = False
        self.assumptions = []


def gen_flagset(rng, schema):
    fs = FlagSet()
    f = fs.flags
    n = rng.choice([0, 1, 1, 2, 2, 3, 4, 6])
    kinds = ["ov", "bp", "label", "sec_ov", "sec_bp"]
    used = set()
    for _ in range(n):
        k = rng.choice(kinds)
        if k == "ov":
            lv = rng.choice(list(NAME_FLAG))
            if ("ov", lv) in used:
                continue
            used.add(("ov", lv))
            amt = rng.choice([0, 1, 2, 7, 2 ** 32 - 1, rng.randrange(0, 1000)])
            f.override[lv] = amt
            fs.groups.append(["--%s=%d" % (NAME_FLAG[lv], amt)])
            if lv == "PreReleaseNum":
                fs.assumptions.append("pre-release-num on a version without pre-release creates alpha")
        elif k == "bp":
            lv = rng.choice(list(NAME_FLAG))
            if ("bp", lv) in used:
                continue
            used.add(("bp", lv))
            amt = rng.choice(AMOUNTS)
            f.bump[lv] = 1 if amt is None else amt
            flag = "--bump-%s" % NAME_FLAG[lv]
            fs.groups.append([flag] if amt is None else ["%s=%d" % (flag, amt)])
        elif k == "label":
            which = rng.choice(["ov", "bp"])
            if ("label", which) in used:
                continue
            used.add(("label", which))
            lab = rng.choice(["alpha", "beta", "rc", "rc", "beta", "alpha", "rc", "beta", "none", "gamma"])
            flag = "--pre-release-label" if which == "ov" else "--bump-pre-release-label"
            fs.groups.append(["%s=%s" % (flag, lab)])
            if lab == "none":
                fs.none_label = True
                if which == "ov":
                    fs.none_ov = True
                else:
                    fs.none_bp = True
            elif which == "ov":
                f.label_override = lab
            else:
                f.label_bump = lab
        else:
            sec = rng.choice(["Core", "ExtraCore", "Build"])
            comps = schema[B.SECTION[sec]]
            ln = len(comps)
            r = rng.random()
            good = [j for j, c in enumerate(comps) if c[0] in ("str", "uint") or (c[0] == "var" and not isinstance(c[1], tuple) and c[1] not in B.VCS_VARS)]
            if not good and rng.random() < 0.7:
                continue
            if ln and r < 0.85:
                i = rng.choice(good) if good and rng.random() < 0.8 else rng.randrange(ln)
                form = rng.random()
                if form < 0.6:
                    idx = str(i)
                elif form < 0.8:
                    idx = str(i - ln)
                else:
                    idx = "~%d" % (ln - i)
            else:
                idx = rng.choice([str(ln), str(ln + 3), str(-ln - 1), "~%d" % (ln + 1), "~0"])
            target = None
            try:
                target = comps[B.resolve_index(idx, ln)]
            except B.Refused:
                pass
            if target is not None and target[0] == "str":
                val = rng.choice(["x", "release", "rc1", "007", "A-b", "5"])      # ("-3" as the text of a literal: the statement does not say whether that is refused)
            else:
                val = rng.choice(["0", "1", "5", "42", "4294967295", "4294967296", "x", "-1", "1.5", "٣"])
                if rng.random() < 0.85:
                    val = rng.choice(["0", "1", "5", "42", "4294967295"])
            if k == "sec_ov":
                f.sec_override[sec].append((idx, val))
                fs.groups.append(["--%s=%s=%s" % (SEC_FLAG[sec], idx, val)])
            else:
                if rng.random() < 0.4:
                    f.sec_bump[sec].append((idx, None))
                    fs.groups.append(["--bump-%s=%s" % (SEC_FLAG[sec], idx)])
                else:
                    f.sec_bump[sec].append((idx, val))
                    fs.groups.append(["--bump-%s=%s=%s" % (SEC_FLAG[sec], idx, val)])
                if idx.startswith("~"):
                    fs.tilde_bump = True
    # option spellings: `--flag value` in two tokens is the same request as `--flag=value` (kept joined where the value starts with `-`)
    for g in fs.groups:
        if len(g) == 1 and "=" in g[0] and rng.random() < 0.25:
            flag, val = g[0].split("=", 1)
            if val and not val.startswith("-"):
                g[:] = [flag, val]
    return fs


def model(schema0, vars0, fs):
    """-> ('ok', schema, vars) | ('refused', reason)"""
    f = fs.flags
    # both label flags present (even with `none`) is a CLI-level conflict
    labels = [g[0] for g in fs.groups if g[0].startswith("--pre-release-label") or g[0].startswith("--bump-pre-release-label")]
    if len(labels) == 2:
        return ("refused", "both label flags")
    for sec in f.sec_override:
        for idx, val in f.sec_override[sec] + f.sec_bump[sec]:
            if val is not None and val.startswith("-") and val[1:].isdigit():
                return ("refused", "negative value")
    try:
        s, v = B.apply(schema0, vars0, f)
    except B.Refused as e:
        return ("refused", str(e))
    return ("ok", s, v)


def strip(schema):
    return {k: [tuple(c) if not isinstance(c, tuple) else c for c in schema[k]] for k in ("core", "extra_core", "build")}


VERSION_FIELDS = ["epoch", "major", "minor", "patch", "pre_release", "post", "dev"]
OTHER_FIELDS = ["distance", "dirty", "bumped_branch", "bumped_commit_hash", "bumped_timestamp", "last_branch", "last_commit_hash",
                "last_timestamp", "last_tag_version", "custom"]


def gen_start(rng):
    """-> (base_argv, stdin or None, description)"""
    k = rng.random()
    if k < 0.6:
        bound = 2 ** 32 - 1
        f = c07.gen_fields(rng, bound)
        if rng.random() < 0.08:
            f[rng.choice(["major", "minor", "patch"])] = 2 ** 64 - 1 - rng.choice([0, 1, 5])
        if rng.random() < 0.5:
            tag, fmt = c07.canon_semver(f), "semver"
        else:
            if f["major"] > 2 ** 32 - 1 or f["minor"] > 2 ** 32 - 1 or f["patch"] > 2 ** 32 - 1:
                tag, fmt = c07.canon_semver(f), "semver"
            else:
                tag, fmt = c07.canon_pep440(f), "pep440"
        argv = ["version", "--source", "none", "--tag-version", tag, "--input-format", rng.choice([fmt, "auto"]), "--output-format", "zerv"]
        r = rng.random()
        if r < 0.35:
            argv += ["--schema", rng.choice(R.PRESETS)]
        elif r < 0.6:
            argv += ["--schema-ron", ron.schema_to_ron(objgen.rand_schema(rng, ascii_only=True))]
        if rng.random() < 0.4:
            argv += ["--distance", str(rng.choice([0, 1, 5]))]
        if rng.random() < 0.3:
            argv += [rng.choice(["--dirty", "--no-dirty"])]
        if rng.random() < 0.3:
            argv += ["--bumped-branch", rng.choice(["main", "feature/x", "release/3"])]
        if rng.random() < 0.3:
            argv += ["--bumped-timestamp", str(rng.randrange(0, 4000000000))]
        r2 = rng.random()
        if r2 < 0.08 and "--distance" not in argv and "--dirty" not in argv and "--no-dirty" not in argv:
            argv += ["--clean"]
        elif r2 < 0.16 and "--dirty" not in argv:
            argv += ["--no-bump-context"]
        elif r2 < 0.2:
            argv += ["--bump-context"]
        return argv, None
    schema = objgen.rand_schema(rng, ascii_only=True)
    v = objgen.rand_vars(rng, ascii_only=True, bound=2 ** 32)
    if rng.random() < 0.06:
        v[rng.choice(["major", "minor", "patch", "post", "dev"])] = 2 ** 64 - 1 - rng.choice([0, 1])
    argv = ["version", "--source", "stdin", "--output-format", "zerv"]
    if rng.random() < 0.3:
        # --tag-version on top of a detected (stdin) version: the override sets the start version absolutely
        f = c07.gen_fields(rng, 2 ** 32 - 1)
        tag, fmt = (c07.canon_semver(f), "semver") if rng.random() < 0.5 else (c07.canon_pep440(f), "pep440")
        argv += ["--tag-version", tag, "--input-format", fmt]
    return argv, ron.zerv_to_ron(schema, v)


def parse_out(r):
    """probe reply -> ('ok', schema, vars) | ('err', msg) | ('panic', where)"""
    if "ok" in r:
        try:
            s, v = ron.decode_zerv(r["ok"])
        except ron.RonError as e:
            return ("garbled", "%s: %r" % (e, r["ok"][:200]))
        s.pop("precedence_order", None)
        return ("ok", strip(s), v)
    if "panic" in r:
        return ("panic", r.get("at", "?").rsplit(":", 1)[0] + ": " + str(r["panic"])[:160])
    return ("err", r.get("err") or r.get("text") or repr(r))


def work(bins, seed, nstarts, per_start):
    rng = random.Random(seed)
    pr = core.worker_probe(bins)
    bad = []
    st = {"starts": 0, "flagsets": 0, "runs": 0, "refused_as_expected": 0, "applied": 0, "permutation_runs": 0, "tilde_bump_refused": 0,
          "tilde_bump_applied": 0, "index_ops": 0, "overflow_cases": 0, "baseline_failed": 0, "invariant_checks": 0}
    samples = []
    distinct = set()
    for _ in range(nstarts):
        base_argv, stdin = gen_start(rng)
        base = parse_out(pr.call(dict(op="cli", argv=["zerv"] + base_argv, stdin=stdin)))
        st["runs"] += 1
        if base[0] != "ok":
            st["baseline_failed"] += 1
            if base[0] == "panic":
                bad.append(("panic@" + base[1].split(":")[0], "baseline run panicked: %s" % base[1], dict(argv=base_argv, stdin=stdin)))
            continue
        st["starts"] += 1
        _, schema0, vars0 = base
        if "--tag-version" in base_argv:
            # the start version must be the one the tag denotes (judged without zerv's parsers)
            tv = c07.vars_from_tag(base_argv[base_argv.index("--tag-version") + 1])
            if tv is not None:
                st["start_state_checks"] = st.get("start_state_checks", 0) + 1
                for k in VERSION_FIELDS:
                    got_k = vars0.get(k)
                    if isinstance(got_k, list):
                        got_k = tuple(got_k)
                    if got_k != tv[k]:
                        bad.append(("start-version-differs-from-tag", "--tag-version %s gives %s=%r, the tag denotes %r" % (
                            base_argv[base_argv.index("--tag-version") + 1], k, got_k, tv[k]), dict(argv=base_argv, stdin=stdin)))
                        break
        # context flags arrive as documented
        def _flagval(name):
            return base_argv[base_argv.index(name) + 1] if name in base_argv else None
        ctxbad = None
        if "--no-bump-context" in base_argv:
            if (vars0.get("distance"), vars0.get("dirty"), vars0.get("bumped_branch"), vars0.get("bumped_commit_hash"), vars0.get("bumped_timestamp")) != (0, False, None, None, None):
                ctxbad = "--no-bump-context leaves distance=%r dirty=%r branch=%r hash=%r timestamp=%r" % (
                    vars0.get("distance"), vars0.get("dirty"), vars0.get("bumped_branch"), vars0.get("bumped_commit_hash"), vars0.get("bumped_timestamp"))
        elif stdin is None:
            if "--clean" in base_argv and (vars0.get("distance"), vars0.get("dirty")) != (None, False):
                ctxbad = "--clean gives distance=%r dirty=%r" % (vars0.get("distance"), vars0.get("dirty"))
            if _flagval("--distance") is not None and vars0.get("distance") != int(_flagval("--distance")):
                ctxbad = "--distance %s gives %r" % (_flagval("--distance"), vars0.get("distance"))
            if "--dirty" in base_argv and (vars0.get("dirty") is not True or vars0.get("bumped_timestamp") != core.PINNED_NOW):
                ctxbad = "--dirty gives dirty=%r bumped_timestamp=%r (pinned clock %d)" % (vars0.get("dirty"), vars0.get("bumped_timestamp"), core.PINNED_NOW)
            if "--no-dirty" in base_argv and vars0.get("dirty") is not False:
                ctxbad = "--no-dirty gives dirty=%r" % (vars0.get("dirty"),)
            if _flagval("--bumped-branch") is not None and vars0.get("bumped_branch") != _flagval("--bumped-branch"):
                ctxbad = "--bumped-branch %r gives %r" % (_flagval("--bumped-branch"), vars0.get("bumped_branch"))
            if _flagval("--bumped-timestamp") is not None and "--dirty" not in base_argv and vars0.get("bumped_timestamp") != int(_flagval("--bumped-timestamp")):
                ctxbad = "--bumped-timestamp %s gives %r" % (_flagval("--bumped-timestamp"), vars0.get("bumped_timestamp"))
        if ctxbad:
            bad.append(("context-override-not-applied", ctxbad, dict(argv=base_argv, stdin=stdin)))
        st["context_checks"] = st.get("context_checks", 0) + 1
        if stdin is not None and "--tag-version" in base_argv:
            # metamorphic: the version fields must be those of the tag alone, whatever the stdin object carried
            i = base_argv.index("--tag-version")
            alone = parse_out(pr.call(dict(op="cli", argv=["zerv", "version", "--source", "none", "--tag-version", base_argv[i + 1], "--input-format", base_argv[i + 3],
                                                          "--output-format", "zerv"])))
            st["runs"] += 1
            st["tag_override_on_stdin"] = st.get("tag_override_on_stdin", 0) + 1
            if alone[0] == "ok":
                for k in VERSION_FIELDS:
                    if alone[2].get(k) != vars0.get(k):
                        bad.append(("tag-version-override-not-absolute", "--tag-version %s on a stdin object leaves %s=%r (the tag alone gives %r)" % (
                            base_argv[i + 1], k, vars0.get(k), alone[2].get(k)), dict(argv=base_argv, stdin=stdin)))
                        break
        for _ in range(per_start):
            fs = gen_flagset(rng, schema0)
            if not fs.groups:
                continue
            st["flagsets"] += 1
            exp = model(schema0, vars0, fs)
            orders = [list(fs.groups)]
            for _ in range(2):
                g = list(fs.groups)
                rng.shuffle(g)
                orders.append(g)
            outs = []
            for g in orders:
                argv = ["zerv"] + base_argv + [t for grp in g for t in grp]
                outs.append((argv, parse_out(pr.call(dict(op="cli", argv=argv, stdin=stdin)))))
                st["runs"] += 1
            st["permutation_runs"] += 2
            argv, got = outs[0]
            case = dict(argv=argv[1:], stdin=stdin, assumptions=fs.assumptions)
            distinct.add(hash((tuple(argv), stdin)))
            if len(samples) < 3 and len(fs.groups) >= 2:
                samples.append(dict(argv=argv[1:], stdin=(stdin[:160] + "...") if stdin else None, model=exp[0]))
            if any(len(f) for f in fs.flags.sec_override.values()) or any(len(f) for f in fs.flags.sec_bump.values()):
                st["index_ops"] += 1
            # (2) permutation: identical outcome
            for argv2, got2 in outs[1:]:
                if got2[0] != got[0] or (got[0] == "ok" and got2[1:] != got[1:]):
                    bad.append(("flag-order-dependent", "different result when the flags are written in another order: %r vs %r" % (argv[1:], argv2[1:]), case))
                    break
            if got[0] == "panic":
                sig = "panic@" + got[1].split(":")[0]
                if exp[0] == "refused" and "exceeds the integer range" in exp[1]:
                    sig = "bump-overflow-wraps"
                bad.append((sig, "panicked: %s" % got[1], case))
                continue
            if got[0] == "garbled":
                bad.append(("zerv-output-unreadable", got[1], case))
                continue
            if exp[0] == "refused":
                if "exceeds the integer range" in exp[1]:
                    st["overflow_cases"] += 1
                if got[0] == "ok":
                    if fs.tilde_bump and "exceeds" not in exp[1]:
                        pass
                    sig = "bump-overflow-wraps" if "exceeds the integer range" in exp[1] else "invalid-target-accepted"
                    bad.append((sig, "must be rejected (%s) but zerv printed a result" % exp[1], case))
                else:
                    st["refused_as_expected"] += 1
                continue
            # model says ok
            if got[0] == "err":
                if fs.tilde_bump:
                    st["tilde_bump_refused"] += 1      # refusal of ~k on --bump-* is admitted (statement lists refusal as legitimate)
                    continue
                bad.append(("valid-request-refused", "the law gives a result but zerv refused: %s" % got[1][:200], case))
                continue
            if fs.tilde_bump:
                st["tilde_bump_applied"] += 1
            st["applied"] += 1
            _, es, ev = exp
            _, gs, gv = got
            diffs = []
            if strip(es) != gs:
                diffs.append("schema %s, law says %s" % (ron.schema_to_ron(gs), ron.schema_to_ron(es)))
            for k in VERSION_FIELDS:
                a, b = gv.get(k), ev.get(k)
                if isinstance(a, list):
                    a = tuple(a)
                if a != b:
                    diffs.append("%s=%r, law says %r" % (k, a, b))
            for k in OTHER_FIELDS:
                if gv.get(k) != vars0.get(k):
                    diffs.append("%s changed from %r to %r" % (k, vars0.get(k), gv.get(k)))
            if diffs:
                bad.append(("bump-law-differs", "; ".join(diffs[:4]) + " [start %s]" % _fmt_start(vars0), case))
            # (3) model-free invariant: nothing above the highest addressed level changes
            hi = B.highest_level_addressed(schema0, fs.flags)
            if hi is not None:
                st["invariant_checks"] += 1
                for lv in B.LEVELS[:hi]:
                    a = B.level_value(gs, gv, lv)
                    b = B.level_value(schema0, vars0, lv)
                    if lv == "Epoch" and (a or 0) == (b or 0):
                        continue
                    if a != b:
                        bad.append(("higher-level-changed", "level %s changed from %r to %r although no flag addresses it or anything above it" % (lv, b, a), case))
                        break
    return dict(bad=bad, st=st, samples=samples, distinct=len(distinct))


def _fmt_start(v):
    return "epoch=%r %r.%r.%r pre=%r post=%r dev=%r" % (v.get("epoch"), v.get("major"), v.get("minor"), v.get("patch"), v.get("pre_release"), v.get("post"), v.get("dev"))


def work_mirror(bins, cases):
    pr = core.worker_probe(bins)
    dis = []
    for argv, stdin in cases:
        p = pr.call(dict(op="cli", argv=["zerv"] + argv, stdin=stdin))
        r = core.run_zerv(bins, argv, stdin=stdin)
        if r["timeout"]:
            continue
        if "ok" in p:
            if r["exit"] != 0 or r["out"] != p["ok"] + "\n":
                dis.append((argv, p, r))
        elif "panic" in p:
            if r["exit"] == 0:
                dis.append((argv, p, r))
        else:
            if r["exit"] == 0 or r["out"]:
                dis.append((argv, p, r))
    return dict(n=len(cases), dis=dis)


def run(ctx):
    quick = ctx.tier == "quick"
    nshards = 32
    nstarts = 280 if quick else 10000
    per = 6 if quick else 10
    res = core.pmap(work, [(ctx.bins, "%s/%d/%d" % (ctx.prop, ctx.seed, i), nstarts, per) for i in range(nshards)])
    mirror = []
    for r in res:
        ctx.merge_counts(r["st"])
        ctx.evaluations += r["st"]["runs"]
        ctx.distinct_extra += r["distinct"]
        for sig, why, case in r["bad"]:
            ctx.refute(sig, why, case)
        for s in r["samples"][:1]:
            ctx.sample(s, cap=4)
            mirror.append((s["argv"], None)) if s["stdin"] is None else None
    # mirror a sample on the real binary
    rng = ctx.sub_rng("mirror")
    cases = []
    for _ in range(150 if quick else 10000):
        base_argv, stdin = gen_start(rng)
        fs = gen_flagset(rng, dict(core=[("var", "Major"), ("var", "Minor"), ("var", "Patch")], extra_core=[("var", "Epoch"), ("var", "PreRelease")], build=[]))
        cases.append((base_argv + [t for g in fs.groups for t in g], stdin))
    nd = 0
    for r in core.pmap(work_mirror, [(ctx.bins, p) for p in core.split_even(cases, 16)]):
        ctx.count("probe_vs_binary_mirrored", r["n"])
        ctx.evaluations += r["n"]
        nd += len(r["dis"])
        if r["dis"]:
            ctx.notes.append("probe/binary disagreement: %r" % (r["dis"][0],))
    if nd:
        raise core.Inconclusive("probe and binary disagree on %d command lines (harness error)" % nd)
    ctx.rule = ("%d start states (canonical SemVer / PEP 440 tags with --source none under presets, random RON schemas and VCS overrides; random stdin "
                "Zerv objects) x %d random flag sets of size 0-6 drawn from the by-name override/bump flags, both label flags and index-addressed "
                "--core/--extra-core/--build/--bump-* operations (indices i, -k, ~k, in and out of range, duplicate, numeric / non-numeric / negative / "
                "oversized values), each executed in 3 flag orders. non-trivial = distinct (command line, stdin) with >=1 component flag" % (nshards * nstarts, per))
    ctx.assumptions = ["start state = what zerv prints for the same command line without component flags (so tag parsing and schema choice are not re-modelled)",
                       "--pre-release-num on a version without pre-release creates alpha; --pre-release-label none is a no-op; bump of a str literal replaces it",
                       "~k on --bump-*: refusal or the equivalent bump are both admitted"]


def replay(ctx, doc):
    c = doc["case"]
    r = core.run_zerv(ctx.bins, c["argv"], stdin=c.get("stdin"))
    print("exit=%s\nstdout=%s\nstderr=%s" % (r["exit"], r["out"][:3000], r["err"][:500]))
    print("re-run the check with the same seed for the model's verdict: %s" % doc.get("what"))
    return 0
