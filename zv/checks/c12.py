"""C12 — Zerv RON is a lossless interchange format and invalid objects are refused.

Observation: the real binary (`... --output-format zerv`, then piped into `zerv version --source
stdin ...`), the probe's Zerv::from_str/to_string for the byte-identical re-emission, and the
binary fed with mutated documents.  Oracle: zv.ron (independent reader/writer), an own
placement validator written from the statement, string equality of piped vs direct output."""
import random

from .. import core, objgen, ron
from ..refs import render as R
from . import c05, c07

MINIMUMS = (800, 150)
NOW = core.PINNED_NOW
PRIMARY = ["Major", "Minor", "Patch"]
SECONDARY = ["Epoch", "PreRelease", "Post", "Dev"]


def placement_errors(schema):
    """the schema placement rules of the statement; returns list of violated rules"""
    out = []
    if not (schema["core"] or schema["extra_core"] or schema["build"]):
        out.append("no component at all")
    seen = []
    for c in schema["core"]:
        if c[0] == "var" and not isinstance(c[1], tuple):
            if c[1] in PRIMARY:
                if c[1] in seen:
                    out.append("duplicate %s" % c[1])
                seen.append(c[1])
            elif c[1] in SECONDARY:
                out.append("%s in core" % c[1])
    if [PRIMARY.index(x) for x in seen] != sorted(PRIMARY.index(x) for x in seen):
        out.append("major/minor/patch out of order")
    seen2 = []
    for c in schema["extra_core"]:
        if c[0] == "var" and not isinstance(c[1], tuple):
            if c[1] in SECONDARY:
                if c[1] in seen2:
                    out.append("duplicate %s" % c[1])
                seen2.append(c[1])
            elif c[1] in PRIMARY:
                out.append("%s in extra_core" % c[1])
    for c in schema["build"]:
        if c[0] == "var" and not isinstance(c[1], tuple) and c[1] in PRIMARY + SECONDARY:
            out.append("%s in build" % c[1])
    for sec in ("core", "extra_core", "build"):
        for c in schema[sec]:
            if c[0] == "var" and isinstance(c[1], tuple) and c[1][0] == "ts":
                from ..refs import cal
                if c[1][1] not in cal.PATTERNS and not c[1][1].startswith("%"):
                    out.append("unknown timestamp pattern %s" % c[1][1])
    return out


TEMPLATES = ["{{ semver }}|{{ pep440 }}", "{{ semver_obj.build_part }}/{{ pep440_obj.build_part }}/{{ semver_obj.pre_release_part }}", "{{ pep440 }}", "v{{ major }}.{{ minor }}-{{ bumped_branch }}", "{{ semver_obj.docker }}/{{ distance }}/{{ dirty }}",
             "{{ sanitize(value=bumped_branch, preset='pep440') }}+{{ bumped_commit_hash_short }}", "[{{ custom.build_id }}][{{ pre_release.label }}]"]


def gen_emit_case(rng):
    """a command line (and stdin) whose --output-format zerv output is an 'emitted object'"""
    k = rng.random()
    if k < 0.07:
        # "custom JSON of any shape": deep nesting (serde_json reads up to 127 levels), non-object documents, odd keys, numeric edges
        import json as _json
        kk = rng.random()
        if kk < 0.55:
            n = rng.choice([8, 30, 61, 62, 63, 64, 65, 90, 126, 127, 128, 200])
            how = rng.choice(["obj", "arr", "mixed"])
            if how == "obj":
                doc = '{"a":' * n + "1" + "}" * n
            elif how == "arr":
                doc = '{"a":' + "[" * (n - 1) + "1" + "]" * (n - 1) + "}"
            else:
                doc = '{"a":[' * (n // 2) + "1" + "]}" * (n // 2)
        elif kk < 0.7:
            doc = rng.choice(["[1,2]", '"str"', "5", "null", "true", "[]", "{}", "-0.0", "[[],{}]"])
        elif kk < 0.85:
            doc = _json.dumps({rng.choice(["", 'a"b', "k\n", "日本", "a.b", "A", " ", "0", "-"]): rng.choice([1, "é", None, [1], {"": {"b": "dots"}}]) for _ in range(3)}, ensure_ascii=rng.random() < 0.5)
        else:
            doc = '{"n": %s}' % rng.choice(["18446744073709551616", "-9223372036854775808", "-9223372036854775809", "5e-324", "1.7976931348623157e308", "9007199254740993.0",
                                              "1e21", "1.5e-7", "0.1", "-0", "123456789012345678901234567890"])
        return ["version", "--source", "none", "--tag-version", "1.2.3", "--custom", doc, "--output-format", "zerv"], None
    if k < 0.45:
        base_argv, stdin = c05.gen_start(rng)
        fs = c05.gen_flagset(rng, dict(core=[("var", "Major"), ("var", "Minor"), ("var", "Patch")], extra_core=[("var", "Epoch"), ("var", "PreRelease")], build=[]))
        argv = [a for a in base_argv] + [t for g in fs.groups for t in g]
        if rng.random() < 0.5 and "--source" in argv and argv[argv.index("--source") + 1] == "none":
            argv += ["--bumped-branch=" + (objgen.rand_text(rng, False).replace("\x00", ""))]
        if rng.random() < 0.25:
            argv += [rng.choice(["--epoch=0", "--post=0", "--dev=0", "--pre-release-num=0", "--bump-epoch=0", "--distance=0"])]
        if rng.random() < 0.5:
            argv += ["--custom", __import__("json").dumps(objgen.rand_custom(rng, False))]
        return argv, stdin
    if k < 0.75:
        schema = objgen.rand_schema(rng, ascii_only=False)
        v = objgen.rand_vars(rng, ascii_only=False, bound=2 ** 64, wide=True)
        v["custom"] = rng.choice([objgen.rand_custom(rng, False), {"a": [1, [2, [3, {"b": None}]]], "f": 2.5, "neg": -7, "z": -0.0, "e": {}, "l": [],
                                                                      "big": 2 ** 64 - 1, "s": 'q"uo\\te\nnl\ttab\r' + "é日本😀"}, {}])
        if rng.random() < 0.35:
            order = list(ron.PRECEDENCE)
            k2 = rng.random()
            if k2 < 0.3:
                order = []
            elif k2 < 0.6:
                rng.shuffle(order)
            else:
                order = rng.sample(order, rng.randrange(1, len(order)))
            schema["precedence_order"] = order
            text = ron.zerv_to_ron(schema, v)
            return ["version", "--source", "stdin", "--output-format", "zerv"], text
        return ["version", "--source", "stdin", "--output-format", "zerv"], ron.zerv_to_ron(schema, v)
    if k < 0.82:
        # only literal schema components change (no variable does): renderings must follow the emitted object
        f = c07.gen_fields(rng, 2 ** 31)
        f["build"] = None
        schema = '(core: [var(Major), var(Minor), var(Patch)], extra_core: [var(Epoch), var(PreRelease), str("stage"), uint(1)], build: [str("old"), uint(7), var(BumpedBranch)])'
        argv = ["version", "--source", "none", "--tag-version", c07.canon_semver(f), "--schema-ron", schema, "--output-format", "zerv"]
        argv += rng.choice([["--build=0=new"], ["--build=0=new", "--build=1=9"], ["--extra-core=2=prod"], ["--bump-build=1=5"], ["--bump-extra-core=3"], ["--build=~3=x1", "--extra-core=-1=4"]])
        if rng.random() < 0.5:
            argv += ["--bumped-branch=main"]
        return argv, None
    f = c07.gen_fields(rng, 2 ** 31)
    f["build"] = None
    argv = ["flow", "--source", "none", "--tag-version", c07.canon_semver(f), "--output-format", "zerv"]
    if rng.random() < 0.8:
        argv += ["--bumped-branch=" + (objgen.rand_text(rng, False).replace("\x00", "") or "main")]
    if rng.random() < 0.6:
        argv += ["--distance", str(rng.choice([0, 1, 5]))]
    if rng.random() < 0.4:
        argv += ["--dirty"]
    return argv, None


def work_emit(bins, seed, n):
    rng = random.Random(seed)
    env = core.base_env(bins)
    pr = core.worker_probe(bins)
    bad = []
    st = {"emit_runs": 0, "emitted_objects": 0, "reemit_identical": 0, "piped_renderings": 0, "fields_compared": 0, "refused": 0}
    distinct = set()
    samples = []
    for _ in range(n):
        argv, stdin = gen_emit_case(rng)
        r = core.run_zerv(bins, argv, stdin=stdin, env=env)
        st["emit_runs"] += 1
        case = dict(kind="emit", argv=argv, stdin=stdin)
        if r["timeout"]:
            continue
        if r["exit"] != 0:
            st["refused"] += 1
            if "panicked" in r["err"]:
                bad.append(("panic-in-binary", r["err"][:200], case))
            continue
        text = r["out"]
        st["emitted_objects"] += 1
        distinct.add(hash(text))
        # (1) parses back to an identical object and re-emits byte-identically
        rep = pr.call(dict(op="zerv_obj", ron=text))
        if not rep.get("ok"):
            bad.append(("emitted-object-does-not-parse", "zerv cannot read its own output: %r" % (rep,), case))
            continue
        if rep["ron"] + "\n" != text:
            bad.append(("reemit-not-identical", "parse + re-emit changed the document (first difference at %d)" % _first_diff(rep["ron"] + "\n", text), case))
        else:
            st["reemit_identical"] += 1
        # (2) independent reader sees the same fields; placement rules hold
        try:
            schema, v = ron.decode_zerv(text)
        except ron.RonError as e:
            bad.append(("emitted-object-unreadable", "independent RON reader cannot read the emitted object: %s" % e, case))
            continue
        perr = placement_errors(schema)
        if perr:
            bad.append(("emitted-schema-violates-placement", "emitted schema breaks %s" % perr, case))
        if "__extra__" in v:
            bad.append(("emitted-unknown-fields", "unknown vars fields %r" % v["__extra__"], case))
        if stdin is not None and argv[:3] == ["version", "--source", "stdin"] and len(argv) == 5:
            s0, v0 = ron.decode_zerv(stdin)
            exp = dict(v0)
            if exp.get("epoch") == 0:
                exp["epoch"] = None
            if exp.get("dirty") is True:
                exp["bumped_timestamp"] = NOW
            for k in ron.VAR_FIELDS:
                st["fields_compared"] += 1
                a, b = v.get(k), exp.get(k)
                if k == "custom" and b is None:
                    b = {}
                if not _same(a, b):
                    bad.append(("field-not-preserved", "field %s: sent %r, emitted %r" % (k, b, a), case))
            po_sent = s0.pop("precedence_order", None)
            sch = dict(schema)
            po_got = sch.pop("precedence_order", None)
            if po_sent is not None and list(po_sent) != list(po_got or []):
                # an explicit precedence order (also an empty one) is part of the object
                bad.append(("schema-not-preserved", "precedence_order sent %r, emitted %r" % (po_sent, po_got), case))
            if sch != s0:
                bad.append(("schema-not-preserved", "schema sent %s, emitted %s" % (ron.schema_to_ron(s0), ron.schema_to_ron(sch)), case))
        # (3) piped rendering equals direct rendering
        direct_base = [a for a in argv]
        i = direct_base.index("--output-format")
        for how in ("semver", "pep440", "template", "bump"):
            if how == "bump":
                # the same operation on the object and on the original input: the precedence order (what a bump resets) travels with the object
                op = rng.choice([["--bump-minor"], ["--bump-major"], ["--bump-patch"], ["--bump-epoch"], ["--bump-post"], ["--bump-pre-release-num"]])
                if not (stdin is not None and argv[:3] == ["version", "--source", "stdin"] and len(argv) == 5):
                    continue      # only where the emitted object *is* the input object: a further bump on top of other flags is a different request
                d_argv = direct_base[:i] + ["--output-format", "semver"] + direct_base[i + 2:] + op
                p_argv = ["version", "--source", "stdin", "--output-format", "semver"] + op
            elif how == "template":
                t = rng.choice(TEMPLATES)
                d_argv = direct_base[:i] + direct_base[i + 2:] + ["--output-template", t]
                p_argv = ["version", "--source", "stdin", "--output-template", t]
            else:
                d_argv = direct_base[:i] + ["--output-format", how] + direct_base[i + 2:]
                p_argv = ["version", "--source", "stdin", "--output-format", how]
            d = core.run_zerv(bins, d_argv, stdin=stdin, env=env)
            p = core.run_zerv(bins, p_argv, stdin=text, env=env)
            st["piped_renderings"] += 1
            if d["timeout"] or p["timeout"]:
                continue
            if (d["exit"] == 0) != (p["exit"] == 0) or (d["exit"] == 0 and d["out"] != p["out"]):
                if "panicked" in d["err"] + p["err"]:
                    bad.append(("panic-in-binary", (d["err"] + p["err"])[:200], case))
                else:
                    bad.append(("piped-differs-from-direct", "%s: direct %r (exit %s) vs piped %r (exit %s; %s)" % (
                        how, d["out"][:200], d["exit"], p["out"][:200], p["exit"], p["err"][:120]), dict(kind="pipe", argv=argv, stdin=stdin, how=how, p_argv=p_argv)))
        if len(samples) < 1:
            samples.append(dict(argv=argv, emitted_head=text[:200]))
    return dict(bad=bad, st=st, distinct=len(distinct), samples=samples)


def _same(a, b):
    if isinstance(a, float) or isinstance(b, float):
        try:
            return float(a) == float(b) and (str(a)[0] == "-") == (str(b)[0] == "-")
        except (TypeError, ValueError):
            return False
    if isinstance(a, (list, tuple)) and isinstance(b, (list, tuple)):
        return len(a) == len(b) and all(_same(x, y) for x, y in zip(a, b))
    if isinstance(a, dict) and isinstance(b, dict):
        return list(a.keys()) == list(b.keys()) and all(_same(a[k], b[k]) for k in a) if False else (set(a) == set(b) and all(_same(a[k], b[k]) for k in a))
    return a == b and type(a) == type(b) or (a == b and not isinstance(a, bool) and not isinstance(b, bool))


def _first_diff(a, b):
    for i, (x, y) in enumerate(zip(a, b)):
        if x != y:
            return i
    return min(len(a), len(b))


# ---------------------------------------------------------------------------
# refusal of invalid objects
# ---------------------------------------------------------------------------
def structural_mutants(rng):
    """(description, RON text) pairs that the statement says must be refused"""
    v = objgen.rand_vars(rng, ascii_only=True)
    vr = ron.vars_to_ron(v)
    S = lambda core, extra, build: "(schema: (core: [%s], extra_core: [%s], build: [%s]), vars: %s)" % (core, extra, build, vr)
    out = [
        ("minor before major", S("var(Minor), var(Major)", "", "")),
        ("patch before minor", S("var(Major), var(Patch), var(Minor)", "", "")),
        ("patch in extra_core", S("var(Major)", "var(Patch)", "")),
        ("major in build", S("", "", "var(Major)")),
        ("epoch in core", S("var(Major), var(Epoch)", "", "")),
        ("pre-release in core", S("var(PreRelease)", "", "")),
        ("post in build", S("var(Major)", "", "var(Post)")),
        ("dev in core", S("var(Major), var(Dev)", "", "")),
        ("duplicate major", S("var(Major), var(Major)", "", "")),
        ("duplicate post", S("var(Major)", "var(Post), var(Epoch), var(Post)", "")),
        ("unknown timestamp pattern", S("var(Major)", "", 'var(ts("QQ"))')),
        ("unknown timestamp pattern 2", S('var(ts("YYYYY"))', "", "")),
        ("no component at all", S("", "", "")),
        ("minor before major, literals in between", S('var(Minor), str("x"), uint(3), var(Major)', "", "")),
        ("minor in build", S("var(Major)", "", "var(Minor)")),
        ("epoch in build", S("var(Major)", "", "var(Epoch)")),
        ("duplicate pre-release", S("var(Major)", "var(PreRelease), var(Post), var(PreRelease)", "")),
        ("unknown timestamp pattern in extra_core", S("var(Major)", 'var(ts("Q"))', "")),
        ("empty timestamp pattern", S("var(Major)", "", 'var(ts(""))')),
        ("timestamp pattern in the wrong case", S("var(Major)", "", 'var(ts("yyyy"))')),
        ("timestamp pattern with a foreign letter", S("var(Major)", "", 'var(ts("YYYYx"))')),
        ("timestamp pattern with a percent sign inside", S("var(Major)", "", 'var(ts("YYYY%"))')),
        ("timestamp pattern ending in percent", S("var(Major)", 'var(ts("Q%"))', "")),
        ("timestamp pattern 100%", S('var(Major), var(ts("100%"))', "", "")),
        ("timestamp pattern with a space before percent", S("var(Major)", "", 'var(ts(" %Y"))')),
        ("unknown var name", S("var(Majr)", "", "")),
        ("unknown component kind", S("vars(Major)", "", "")),
        ("wrong type: string for uint", S('uint("5")', "", "")),
        ("wrong type: number for str", S("str(5)", "", "")),
        ("wrong type: major as string", "(schema: (core: [var(Major)], extra_core: [], build: []), vars: %s)" % vr.replace("major: ", 'major: Some("x"), zz: ', 1)),
        ("negative number", "(schema: (core: [var(Major)], extra_core: [], build: []), vars: %s)" % vr.replace("minor: ", "minor: Some(-1), zz: ", 1)),
        ("unknown label", "(schema: (core: [var(Major)], extra_core: [], build: []), vars: %s)" % vr.replace("pre_release: ", "pre_release: Some((label: Gamma, number: None)), zz: ", 1)),
        ("vars missing", "(schema: (core: [var(Major)], extra_core: [], build: []))"),
        ("schema missing", "(vars: %s)" % vr),
        ("not a struct", "[1, 2, 3]"),
        ("plain text", "1.2.3"),
        ("json", '{"schema": {"core": []}, "vars": {}}'),
    ]
    return out


def textual_mutant(text, rng):
    b = text
    if len(b) < 2:
        return b + rng.choice(["(", ")", "x", " "])      # (a second mutation of an already truncated text)
    k = rng.random()
    i = rng.randrange(len(b))
    if k < 0.25:
        return b[:i] + b[i + 1:]
    if k < 0.45:
        return b[:i] + rng.choice("()[]{},:\"\\'0a-_ ~#\n%Q") + b[i:]
    if k < 0.65:
        return b[:i] + rng.choice("()[]{},:\"9Zx ") + b[i + 1:]
    if k < 0.8:
        return b[:rng.randrange(1, len(b))]
    if k < 0.9:
        return b + rng.choice([")", "]", "x", ",", "(", " 1", "\"", "()", ")(" , "// c", "/*"])
    j = rng.randrange(len(b))
    i, j = min(i, j), max(i, j)
    return b[:i] + b[j:]


def work_refusal(bins, seed, n):
    rng = random.Random(seed)
    env = core.base_env(bins)
    bad = []
    st = {"structural_mutants": 0, "textual_mutants": 0, "textual_refused": 0, "textual_still_valid": 0, "textual_oracle_cannot_read": 0}
    import re as _re
    for desc, text in structural_mutants(rng):
        # every consumer of "the schema in effect": version and flow, each output kind, and the same schema handed over as --schema-ron
        cmds = [(["version", "--source", "stdin", "--output-format", fmt], text) for fmt in ("semver", "zerv", "pep440")]
        cmds += [(["version", "--source", "stdin", "--output-template", "{{ major }}.{{ semver }}"], text), (["flow", "--source", "stdin"], text),
                 (["flow", "--source", "stdin", "--output-format", "zerv"], text)]
        m = _re.match(r"\(schema: (\(core: \[.*?\], extra_core: \[.*?\], build: \[.*?\]\)), vars: ", text)
        if m and "zz: " not in text:
            sch = m.group(1)
            cmds += [(["version", "--source", "none", "--tag-version", "1.2.3", "--schema-ron", sch], None), (["flow", "--source", "none", "--tag-version", "1.2.3", "--schema-ron", sch], None),
                     (["version", "--source", "none", "--tag-version", "1.2.3", "--schema-ron", sch, "--output-format", "zerv"], None)]
        for argv, stdin_ in cmds:
            r = core.run_zerv(bins, argv, stdin=stdin_, env=env)
            st["structural_mutants"] += 1
            case = dict(kind="structural", desc=desc, stdin=stdin_, argv=argv)
            if r["timeout"]:
                continue
            if "panicked" in r["err"]:
                bad.append(("panic-in-binary", "%s: %s" % (desc, r["err"][:200]), case))
            elif r["exit"] == 0:
                bad.append(("invalid-object-rendered", "%s: `zerv %s` rendered %r instead of rejecting it" % (desc, " ".join(argv[:6]), r["out"][:100]), case))
    # malformed text handed over as --schema-ron (the other channel for "the schema in effect"): a complete schema followed by anything, or cut short
    for _ in range(3):
        sch = ron.schema_to_ron(objgen.rand_schema(rng, ascii_only=True))
        for bad_text in (sch + ")", sch + " garbage", sch + " " + sch, sch + ' "abc', sch + " /* note", sch[:-1], "(" + sch, sch + ",", sch + "]", sch.replace("core", "c0re", 1), "", " "):
            for argv in (["version", "--source", "none", "--tag-version", "1.2.3-rc.4", "--schema-ron", bad_text], ["flow", "--source", "none", "--tag-version", "1.2.3", "--schema-ron", bad_text],
                         ["version", "--source", "none", "--tag-version", "1.2.3", "--schema-ron", bad_text, "--output-format", "zerv"]):
                r = core.run_zerv(bins, argv, env=env)
                st["structural_mutants"] += 1
                if r["timeout"]:
                    continue
                case = dict(kind="structural", desc="malformed --schema-ron text", stdin=None, argv=argv)
                if "panicked" in r["err"]:
                    bad.append(("panic-in-binary", "malformed --schema-ron: %s" % r["err"][:200], case))
                elif r["exit"] == 0:
                    bad.append(("invalid-object-rendered", "--schema-ron %r is not a RON document, `zerv %s` rendered %r" % (bad_text[-40:], argv[0], r["out"][:80]), case))
    for _ in range(n):
        schema = objgen.rand_schema(rng, ascii_only=True)
        v = objgen.rand_vars(rng, ascii_only=True)
        v["dirty"] = False if v.get("dirty") else v.get("dirty")
        good = ron.zerv_to_ron(schema, v)
        if rng.random() < 0.4:
            # mutate zerv's own pretty-printed form instead of the compact one
            g = core.run_zerv(bins, ["version", "--source", "stdin", "--output-format", "zerv"], stdin=good, env=env)
            if g["exit"] == 0:
                good = g["out"]
        m = textual_mutant(good, rng)
        if rng.random() < 0.3:
            m = textual_mutant(m, rng)
        r = core.run_zerv(bins, ["version", "--source", "stdin", "--output-format", "semver"], stdin=m, env=env)
        st["textual_mutants"] += 1
        case = dict(kind="textual", stdin=m)
        if r["timeout"]:
            continue
        if "panicked" in r["err"]:
            bad.append(("panic-in-binary", r["err"][:200], case))
            continue
        if r["exit"] != 0:
            st["textual_refused"] += 1
            if r["out"]:
                bad.append(("stdout-on-failure", "rejected but printed %r" % r["out"][:100], case))
            continue
        # accepted: it must still be valid RON describing a valid object, and render like it
        if not m.strip():
            continue
        try:
            s2, v2 = ron.decode_zerv(m)
        except ron.RonError as e:
            if "trailing characters" in str(e):
                bad.append(("malformed-ron-rendered", "document with trailing garbage rendered as %r" % r["out"].strip(), case))
            else:
                st["textual_oracle_cannot_read"] += 1
            continue
        except Exception:
            st["textual_oracle_cannot_read"] += 1
            continue
        st["textual_still_valid"] += 1
        order = s2.pop("precedence_order", None)
        if placement_errors(s2):
            bad.append(("invalid-object-rendered", "schema breaking %s rendered as %r" % (placement_errors(s2), r["out"].strip()), case))
            continue
        try:
            canon = ron.zerv_to_ron(s2, v2)
        except Exception:
            st["textual_oracle_cannot_read"] += 1
            continue
        r2 = core.run_zerv(bins, ["version", "--source", "stdin", "--output-format", "semver"], stdin=canon, env=env)
        if r2["exit"] != 0 or r2["out"] != r["out"]:
            if order is not None:
                continue          # a mutated precedence order is a different (valid) object the writer does not reproduce
            bad.append(("mutant-renders-differently", "mutant printed %r but the object it denotes prints %r (exit %s)" % (r["out"].strip(), r2["out"].strip(), r2["exit"]), case))
    # byte-level mutants: a document that is not valid UTF-8 is not valid RON text
    for _ in range(max(10, n // 6)):
        schema = objgen.rand_schema(rng, ascii_only=False)
        v = objgen.rand_vars(rng, ascii_only=False)
        v["dirty"] = False if v.get("dirty") else v.get("dirty")
        good = ron.zerv_to_ron(schema, v).encode("utf-8")
        i = rng.randrange(len(good))
        while i < len(good) and (good[i] & 0xC0) == 0x80:
            i += 1            # do not split an existing multi-byte character: insert between characters
        bad_bytes = rng.choice([b"\xff", b"\xfe\xff", b"\xc3", b"\xe6\x97", b"\xed\xa0\x80", b"\xf8\x88\x80\x80\x80", b"\x80", b"\xc0\xaf"])
        m = good[:i] + bad_bytes + good[i:]
        r = core.run_zerv(bins, ["version", "--source", "stdin", "--output-format", rng.choice(["semver", "pep440", "zerv"])], stdin=m, env=env)
        st["invalid_utf8_mutants"] = st.get("invalid_utf8_mutants", 0) + 1
        case = dict(kind="bytes", stdin=m.decode("latin-1"))
        if r["timeout"]:
            continue
        if "panicked" in r["err"]:
            bad.append(("panic-in-binary", r["err"][:200], case))
        elif r["exit"] == 0:
            bad.append(("invalid-utf8-rendered", "a document containing the invalid UTF-8 bytes %r at offset %d was rendered as %r" % (bad_bytes, i, r["out"][:80]), case))
        elif r["out"]:
            bad.append(("stdout-on-failure", "rejected but printed %r" % r["out"][:100], case))
    return dict(bad=bad, st=st)


def run(ctx):
    quick = ctx.tier == "quick"
    per = 70 if quick else 4000
    for r in core.pmap(work_emit, [(ctx.bins, "%s/%d/e%d" % (ctx.prop, ctx.seed, i), per) for i in range(32)]):
        ctx.merge_counts(r["st"])
        ctx.evaluations += r["st"]["emit_runs"] + r["st"]["piped_renderings"] * 2
        ctx.distinct_extra += r["distinct"]
        for sig, why, case in r["bad"]:
            ctx.refute(sig, why, case)
        for s in r["samples"][:1]:
            ctx.sample(s, cap=3)
    pm = 180 if quick else 7000
    for r in core.pmap(work_refusal, [(ctx.bins, "%s/%d/r%d" % (ctx.prop, ctx.seed, i), pm) for i in range(32)]):
        ctx.merge_counts(r["st"])
        ctx.evaluations += r["st"]["structural_mutants"] + r["st"]["textual_mutants"]
        ctx.distinct_extra += r["st"]["textual_mutants"]
        for sig, why, case in r["bad"]:
            ctx.refute(sig, why, case)
    ctx.rule = ("%d emitting command lines (source none + tags + random override/bump flags + hostile branch text + custom JSON; random stdin objects with "
                "Unicode strings, nested custom JSON, floats, 2^64-1, -0.0; flow) -> emitted object must re-emit byte-identically, be readable by an independent "
                "RON reader with every field preserved, satisfy the placement rules, and render identically when piped (semver, pep440, a template) under a "
                "pinned clock; 25 structural mutants x 2 formats per shard and %d textual mutants (delete/insert/replace/truncate/append/cut) must be refused "
                "or denote a valid object that renders the same. non-trivial = distinct emitted objects + mutants" % (32 * per, 32 * pm))
    ctx.assumptions = ["zv.ron reads the RON subset zerv emits; a mutant zerv accepts but zv.ron cannot read is counted (textual_oracle_cannot_read), not judged, "
                       "except for trailing garbage after a complete document"]


def replay(ctx, doc):
    c = doc["case"]
    env = core.base_env(ctx.bins)
    if c["kind"] in ("structural", "textual", "bytes"):
        sin = c["stdin"].encode("latin-1") if c["kind"] == "bytes" else c["stdin"]
        r = core.run_zerv(ctx.bins, c.get("argv") or ["version", "--source", "stdin", "--output-format", "semver"], stdin=sin, env=env)
        print("exit=%s out=%r err=%r" % (r["exit"], r["out"], r["err"][:300]))
        return 1 if r["exit"] == 0 and c["kind"] in ("structural", "bytes") else 0
    r = core.run_zerv(ctx.bins, c["argv"], stdin=c.get("stdin"), env=env)
    print("exit=%s\n%s\n%s" % (r["exit"], r["out"][:2000], r["err"][:300]))
    print(doc.get("what"))
    return 0
