"""C03 — flow versions sort consistently with history.

Observation: stdout of the real binary `zerv flow ... --output-format semver|pep440`
(sources none / stdin via the probe for volume, real git repositories via the binary).
Oracle: independent comparators applied to zerv's *strings*: SemVer 2.0.0 precedence
(zv.refs.semver) and the real PEP 440 order (zv.refs.pep440.key_pep440)."""
import os
import random

from .. import core, gitmodel
from ..refs import flow as F
from ..refs import pep440 as P
from ..refs import semver as S
from . import c04

MINIMUMS = (1500, 300)
NOW = core.PINNED_NOW
PRESETS_STRICT2 = ["standard", "standard-no-context", "standard-context", "standard-base-prerelease", "standard-base-prerelease-post",
                   "standard-base-prerelease-post-dev", "standard-base-prerelease-context", "standard-base-prerelease-post-context",
                   "standard-base-prerelease-post-dev-context"]
PRESETS_WEAK2 = ["standard-base", "standard-base-context"]
HAS_POST = {"standard", "standard-no-context", "standard-context", "standard-base-prerelease-post", "standard-base-prerelease-post-dev",
            "standard-base-prerelease-post-context", "standard-base-prerelease-post-dev-context"}
NUMS = [0, 1, 9, 10, 99, 2 ** 31, 2 ** 32 - 2]


def key(fmt, s):
    """-> comparable key or None when the independent recogniser cannot read s"""
    if fmt == "semver":
        v = S.parse(s, allow_v=False)
        return None if v is None else S.key(v)
    v = P.parse(s)
    return None if v is None else P.key_pep440(v)


def public(fmt, s):
    return S.public(s) if fmt == "semver" else P.public(s)


def run_flow(pr, argv, stdin=None):
    r = pr.call(dict(op="cli", argv=["zerv", "flow"] + argv, stdin=stdin))
    if "ok" in r:
        return ("ok", r["ok"])
    if "panic" in r:
        return ("panic", r.get("at", "?").rsplit(":", 1)[0] + ": " + str(r["panic"])[:120])
    return ("err", r.get("err") or r.get("text") or repr(r))


def gen_state(rng):
    x, y, z = rng.choice(NUMS), rng.choice(NUMS), rng.choice(NUMS)
    tag = "%d.%d.%d" % (x, y, z)
    if rng.random() < 0.2:
        tag = "v" + tag
    branch = c04.rand_branch(rng) if rng.random() < 0.92 else None
    opts = []
    if branch is not None:
        opts += ["--bumped-branch=" + (branch)]
    r = rng.random()
    dirty = None
    if r < 0.3:
        opts += ["--dirty"]
        dirty = True
    elif r < 0.45:
        opts += ["--no-dirty"]
        dirty = False
    mode = None
    if rng.random() < 0.35:
        mode = rng.choice(["commit", "tag"])
        opts += ["--post-mode", mode]
    if rng.random() < 0.25:
        opts += ["--pre-release-label", rng.choice(["alpha", "beta", "rc"])]
    if rng.random() < 0.15:
        opts += ["--pre-release-num", str(rng.choice([0, 1, 9, 10, 11]))]
    hl = rng.choice([5, 5, 1, 2, 3, 4, 6, 7, 8, 9])
    if hl != 5:
        opts += ["--hash-branch-len", str(hl)]
    rules = c04.rand_rules(rng)
    if rules is not None:
        opts += ["--branch-rules", F.rules_to_ron(rules)]
    preset = rng.choice(PRESETS_STRICT2 * 2 + PRESETS_WEAK2) if rng.random() < 0.7 else None
    if preset:
        opts += ["--schema", preset]
    if rng.random() < 0.3:
        opts += ["--bumped-commit-hash", "g" + "".join(rng.choice("0123456789abcdef") for _ in range(12))]
    eff_rules = F.DEFAULT_RULES if rules is None else rules
    rule = F.find_rule(eff_rules, branch)
    eff_mode = mode or (rule["mode"] if rule else "commit")
    return dict(tag=tag, xyz=(x, y, z), branch=branch, opts=opts, dirty=dirty, preset=preset or "standard", mode=eff_mode)


def work_states(bins, seed, n):
    rng = random.Random(seed)
    pr = core.worker_probe(bins)
    bad = []
    st = {}
    distinct = set()
    samples = []

    def inc(k, d=1):
        st[k] = st.get(k, 0) + d
    for _ in range(n):
        s = gen_state(rng)
        x, y, z = s["xyz"]
        dists = sorted(rng.sample([None, 0, 1, 2, 3, 10, 11, 1000], rng.choice([2, 3, 4])), key=lambda d: -1 if d is None else d)
        # one state in four reaches flow as an object on stdin (emitted by zerv itself for the same tag) instead of --tag-version
        source = ["--source", "none", "--tag-version", s["tag"]]
        stdin = None
        if rng.random() < 0.25:
            r0 = pr.call(dict(op="cli", argv=["zerv", "version", "--source", "none", "--tag-version", s["tag"], "--output-format", "zerv"]))
            if "ok" in r0:
                # without --schema a stdin object brings its own schema (here: the resolved clean-at-tag tier), which is not one of the
                # standard presets the claim is quantified over: the preset is named explicitly
                source, stdin = ["--source", "stdin"] + ([] if "--schema" in s["opts"] else ["--schema", "standard"]), r0["ok"]
                inc("states_via_stdin")
        for fmt in ("semver", "pep440"):
            lo = "%d.%d.%d" % (x, y, z)
            hi = "%d.%d.%d" % (x, y, z + 1)
            klo, khi = key(fmt, lo), key(fmt, hi)
            prev = None        # (distance, version) in commit mode
            for d in dists:
                argv = source + (["--distance", str(d)] if d is not None else []) + s["opts"] + ["--output-format", fmt]
                k, out = run_flow(pr, argv, stdin=stdin)
                inc("runs")
                case = dict(kind="state", argv=["flow"] + argv, stdin=stdin)
                distinct.add(hash(tuple(argv)))
                if k == "panic":
                    bad.append(("panic@" + out.split(":")[0], "flow panicked: %s" % out, case))
                    continue
                if k == "err":
                    inc("refused")
                    # "yields a version V": every generated state is a valid request (final tag within u32, documented options and lengths 1-9)
                    bad.append(("flow-refused", "flow refused a valid state: %s" % out[:200], case))
                    continue
                kv = key(fmt, out)
                if kv is None:
                    inc("not_comparable")
                    bad.append(("flow-output-malformed", "flow printed %r which is not valid %s" % (out, fmt), case))
                    continue
                active = bool(s["dirty"]) or (d or 0) > 0
                if len(samples) < 2 and active:
                    samples.append(dict(argv=["flow"] + argv, output=out))
                if not active:
                    inc("clean_at_tag")
                    if public(fmt, out) != lo:
                        bad.append(("clean-tag-not-exact", "clean at final tag %s printed %r" % (lo, out), case))
                    continue
                inc("active")
                strict = s["preset"] in PRESETS_STRICT2
                cmp_s = out if strict else public(fmt, out)
                kc = key(fmt, cmp_s)
                if not (klo < kc):
                    bad.append(("not-above-base-tag", "%s: V=%r is not greater than the base tag %s" % (fmt, out, lo), case))
                elif strict and not (kc < khi):
                    bad.append(("not-below-next-patch", "%s: V=%r is not below %s" % (fmt, out, hi), case))
                elif not strict and not (kc <= khi):
                    bad.append(("not-below-next-patch", "%s: V=%r is above %s" % (fmt, out, hi), case))
                if s["mode"] == "commit" and d is not None:
                    if prev is not None and prev[0] < d:
                        inc("monotonic_pairs")
                        kp = key(fmt, prev[1])
                        if s["preset"] in HAS_POST:
                            if not (kp < kv):
                                bad.append(("not-increasing-with-distance", "%s: distance %d gives %r, distance %d gives %r" % (fmt, prev[0], prev[1], d, out), case))
                        else:
                            if key(fmt, public(fmt, prev[1])) > key(fmt, public(fmt, out)):
                                bad.append(("decreasing-with-distance", "%s: distance %d gives %r, distance %d gives %r" % (fmt, prev[0], prev[1], d, out), case))
                    if (d or 0) > 0 or s["dirty"]:
                        prev = (d, out)
    return dict(bad=bad, st=st, distinct=len(distinct), samples=samples)


def work_pretag(bins, seed, n):
    """clause (4): clean at a pre-release tag of the shapes flow produces -> unchanged"""
    rng = random.Random(seed)
    pr = core.worker_probe(bins)
    bad = []
    k = 0
    for _ in range(n):
        x, y, z = rng.choice(NUMS), rng.choice(NUMS), rng.choice(NUMS[:-1])
        lab = rng.choice(["alpha", "beta", "rc"])
        num = rng.choice([0, 1, 5, 10, 12345, 2 ** 31])
        post = rng.choice([None, None, 0, 1, 7])
        sem = "%d.%d.%d-%s.%d" % (x, y, z, lab, num) + ("" if post is None else ".post.%d" % post)
        pep = "%d.%d.%d%s%d" % (x, y, z, {"alpha": "a", "beta": "b", "rc": "rc"}[lab], num) + ("" if post is None else ".post%d" % post)
        # flow also produces `.dev.<timestamp>` shapes (dirty trees; tag post-mode ahead of the tag): one case in eight carries one
        dev = rng.choice([1790000000, 1710511845, 0]) if rng.random() < 0.125 else None
        sem_nodev, pep_nodev = sem, pep
        if dev is not None:
            sem, pep = sem + ".dev.%d" % dev, pep + ".dev%d" % dev
        presets = ["standard", "standard-no-context", "standard-context", None]
        presets += ["standard-base-prerelease-post", "standard-base-prerelease-post-context"] if post is not None else ["standard-base-prerelease", "standard-base-prerelease-context"]
        if dev is not None:
            # a fixed schema without a dev component drops it by the user's own choice: only the smart presets and the fixed ones that carry dev
            presets = ["standard", "standard-no-context", "standard-context", None, "standard-base-prerelease-post-dev", "standard-base-prerelease-post-dev-context"]
        preset = rng.choice(presets)
        for tag, infmt in ((sem, "semver"), (pep, "pep440")):
            for fmt, want in (("semver", sem), ("pep440", pep)):
                argv = ["--source", "none", "--tag-version", tag, "--input-format", infmt, "--output-format", fmt]
                argv += rng.choice([[], ["--distance", "0"], ["--no-dirty"], ["--clean"]])
                if rng.random() < 0.8:
                    argv += ["--bumped-branch=" + (c04.rand_branch(rng))]
                if preset:
                    argv += ["--schema", preset]
                kk, out = run_flow(pr, argv)
                k += 1
                case = dict(kind="pretag", argv=["flow"] + argv)
                if kk == "panic":
                    bad.append(("panic@" + out.split(":")[0], out, case))
                elif kk == "err":
                    bad.append(("clean-prerelease-tag-refused", "flow refused a clean pre-release tag: %s" % out[:150], case))
                elif dev is not None and preset in (None, "standard", "standard-no-context", "standard-context") and public(fmt, out) == (sem_nodev if fmt == "semver" else pep_nodev):
                    # recorded finding: the clean-at-tag tier of the smart schemas has no dev component
                    bad.append(("clean-prerelease-tag-with-dev-loses-dev", "clean at tag %s printed %r: the dev part is dropped" % (tag, out), case))
                elif public(fmt, out) != want:
                    bad.append(("clean-prerelease-tag-changed", "clean at tag %s printed %r, expected %r" % (tag, out, want), case))
        # clause 3 from a pre-release base tag: commits added after it (commit post-mode, the tag's own label and number in force) give strictly greater
        # versions, each greater than the one before and all greater than the tag
        if dev is None:
            for fmt, tagv in (("semver", sem), ("pep440", pep)):
                prev = (0, tagv)
                for d in (1, 2, 5, 40):
                    argv = ["--source", "none", "--tag-version", sem, "--input-format", "semver", "--output-format", fmt, "--distance", str(d), "--post-mode", "commit",
                            "--pre-release-label", lab, "--pre-release-num", str(num), "--bumped-branch=feature/x", "--schema", "standard"]
                    kk, out = run_flow(pr, argv)
                    k += 1
                    case = dict(kind="pretag", argv=["flow"] + argv)
                    if kk == "panic":
                        bad.append(("panic@" + out.split(":")[0], out, case))
                        break
                    if kk == "err":
                        bad.append(("flow-refused", "flow refused commits after the pre-release tag %s: %s" % (sem, out[:150]), case))
                        break
                    kv, kp = key(fmt, out), key(fmt, prev[1])
                    if kv is None or not (kp < kv):
                        bad.append(("not-increasing-with-distance", "%s: after tag %s, distance %d gives %r and distance %d gives %r" % (fmt, tagv, prev[0], prev[1], d, out), case))
                        break
                    prev = (d, out)
    return dict(n=k, bad=bad)


def work_submodule(bins, seed, idx, tmp):
    """a super-project at its final tag whose only uncommitted change sits inside a checked-out submodule (`git status`: ` M lib`, `git describe --dirty`: -dirty)"""
    import shutil
    rng = random.Random("%s/sub%d" % (seed, idx))
    home = os.path.join(tmp, "s%d" % idx)
    path = os.path.join(home, "repo")
    os.makedirs(home, exist_ok=True)
    bad = []
    n = 0
    try:
        repo = gitmodel.Repo(path, rng)
        repo.commit()
        repo.add_submodule()
        if idx % 2:
            repo.commit()
        x, y, z = rng.choice([1, 2, 10]), rng.choice([0, 3]), rng.choice([0, 5])
        repo.tag(("v" if idx % 3 else "") + "%d.%d.%d" % (x, y, z), annotated=bool(idx % 2))
        env = core.base_env(bins, home=home)
        for dirt in (None, "submodule_modified"):
            if dirt:
                repo.make_dirty(dirt)
            for fmt in ("semver", "pep440"):
                r = core.run_zerv(bins, ["flow", "-C", path, "--output-format", fmt], env=env)
                n += 1
                case = dict(kind="submodule", seed=seed, idx=idx, dirt=dirt, fmt=fmt)
                lo, hi = "%d.%d.%d" % (x, y, z), "%d.%d.%d" % (x, y, z + 1)
                if r["timeout"]:
                    continue
                if r["exit"] != 0:
                    bad.append(("flow-failed-in-repo", "flow failed in a super-project with a submodule: %s" % r["err"][:200], case))
                    continue
                out = r["out"].rstrip("\n")
                kv = key(fmt, out)
                if dirt is None:
                    if public(fmt, out) != lo:
                        bad.append(("clean-tag-not-exact", "clean super-project at tag %s printed %r" % (lo, out), case))
                elif kv is None or not (key(fmt, lo) < kv < key(fmt, hi)):
                    bad.append(("out-of-bounds-in-history", "%s: a tracked file is modified inside the submodule (uncommitted change), flow printed %r; expected %s < V < %s" % (fmt, out, lo, hi), case))
    except gitmodel.GitError as e:
        raise core.Inconclusive("submodule scenario: %s" % e)
    finally:
        shutil.rmtree(home, ignore_errors=True)
    return dict(n=n, bad=bad)


def work_chain(bins, seed, idx, tmp):
    """real repositories: one or two final-release tags (possibly placed after a branch forked), commits on
    1-3 branches, merges in both directions; flow observed at every commit"""
    rng = random.Random("%s/%d" % (seed, idx))
    path = os.path.join(tmp, "c%d" % idx, "repo")
    os.makedirs(os.path.dirname(path), exist_ok=True)
    home = os.path.dirname(path)
    env = core.base_env(bins, home=home)
    bad = []
    st = {"chain_observations": 0, "chain_monotonic_pairs": 0, "chain_tag_only_via_second_parent": 0, "chain_no_tag_reachable": 0, "chain_two_tags": 0}
    repo = gitmodel.Repo(path, rng)
    tagv = {}
    try:
        branches = ["main"]
        hl = rng.choice([5, 3, 7])
        # one option set per chain (the same along the whole history, so that successive observations stay comparable)
        chain_opts = rng.choice([[], [], ["--schema", "standard-context"], ["--schema", "standard-no-context"], ["--schema", "standard"], ["--post-mode", "commit"],
                                 ["--pre-release-label", "beta"], ["--pre-release-label", "rc", "--pre-release-num", "3"],
                                 ["--branch-rules", '[(pattern: "develop", pre_release_label: beta, pre_release_num: 1, post_mode: commit), (pattern: "feature/*", pre_release_label: alpha, post_mode: commit), (pattern: "*", pre_release_label: alpha, post_mode: commit)]']])
        st["chain_with_options"] = st.get("chain_with_options", 0) + (1 if chain_opts else 0)
        last = {}            # (branch, fmt, base tag) -> (distance, version)

        def new_tag(lower_than=None):
            for _ in range(200):
                x, y, z = rng.choice(NUMS[:5]), rng.choice(NUMS[:5]), rng.choice(NUMS[:5])
                if lower_than is None or (x, y, z) > lower_than:
                    break
            else:
                x, y, z = lower_than[0] + 1, 0, 0
            name = "%s%d.%d.%d" % (rng.choice(["", "v"]), x, y, z)
            if repo.tag(name, annotated=rng.random() < 0.4):
                tagv[name] = (x, y, z)
                if rng.random() < 0.3:
                    # a release candidate promoted to final on the same commit (and a floating non-version tag): the final release is the highest tag there
                    for extra in ("%s%d.%d.%d-rc.%d" % (rng.choice(["", "v"]), x, y, z, rng.choice([1, 2, 10])), "%d.%d.%d-alpha.1" % (x, y, z), "latest"):
                        if rng.random() < 0.6 and repo.tag(extra, annotated=rng.random() < 0.4):
                            tagv[extra] = (x, y, z)
                            st["chain_prerelease_tag_beside_final"] = st.get("chain_prerelease_tag_beside_final", 0) + 1
                return (x, y, z)
            return lower_than

        def first_parent_anc(cid):
            out = set()
            while True:
                out.add(cid)
                ps = repo.commits[cid]["parents"]
                if not ps:
                    return out
                cid = ps[0]

        def observe():
            br = repo.head[1] if repo.head[0] == "branch" else None
            h = repo.head_cid()
            anc = repo.anc(h)
            vset = [c for c in anc if repo.tags_at(c)]
            nearest = [c for c in vset if not any(c2 != c and c in repo.anc(c2) for c2 in vset)]
            at_tag = h in nearest
            kind = (rng.choice(["clean", "touched_same_content", "modified", "untracked", "mode_change", "deleted", "unmerged"]) if not at_tag else
                    rng.choice(["clean", "touched_same_content", "staged_new", "staged_modified", "modified", "mode_change", "deleted", "untracked", "unmerged"]))
            dirty = repo.make_dirty(kind)
            if nearest and not any(c in first_parent_anc(h) for c in nearest):
                st["chain_tag_only_via_second_parent"] += 1
            for fmt in ("semver", "pep440"):
                argv = ["flow", "-C", repo.path, "--output-format", fmt, "--hash-branch-len", str(hl)] + chain_opts
                r = core.run_zerv(bins, argv, env=env)
                st["chain_observations"] += 1
                case = dict(kind="chain", seed=seed, idx=idx, ops=list(repo.ops), dirt=kind, fmt=fmt)
                if r["timeout"]:
                    continue
                if not nearest:
                    st["chain_no_tag_reachable"] += 1
                    if r["exit"] == 0:
                        bad.append(("version-from-no-valid-tag", "no tag reachable from HEAD but flow printed %r" % r["out"], case))
                    continue
                if r["exit"] != 0:
                    if "panicked" in r["err"]:
                        bad.append(("panic-in-binary", r["err"][:200], case))
                    else:
                        bad.append(("flow-failed-in-repo", "flow failed although tag(s) %s are reachable: %s" % ([repo.tags_at(c) for c in nearest], r["err"][:200]), case))
                    continue
                out = r["out"].rstrip("\n")
                kv = key(fmt, out)
                if kv is None:
                    bad.append(("flow-output-malformed", "flow printed %r" % out, case))
                    continue
                ok = False
                why = []
                base = None
                for c in nearest:
                    x, y, z = max(tagv[t] for t in repo.tags_at(c))
                    lo, hi = "%d.%d.%d" % (x, y, z), "%d.%d.%d" % (x, y, z + 1)
                    dist = len(anc - repo.anc(c))
                    if dist == 0 and not dirty:
                        good = public(fmt, out) == lo
                    else:
                        good = key(fmt, lo) < kv < key(fmt, hi)
                    if good:
                        ok = True
                        base = (c, dist)
                        break
                    why.append("base %s at distance %d" % (lo, dist))
                if not ok:
                    sig = "clean-tag-not-exact" if (len(nearest) == 1 and len(anc - repo.anc(nearest[0])) == 0 and not dirty) else "out-of-bounds-in-history"
                    bad.append((sig, "%s: %r does not fit any admissible base (%s; dirt %s, branch %s)" % (fmt, out, "; ".join(why), kind, br), case))
                    continue
                if br is not None and not br.startswith("release/") and not dirty and base[1] > 0:
                    prev = last.get((br, fmt, base[0]))
                    if prev is not None and prev[0] < base[1]:
                        st["chain_monotonic_pairs"] += 1
                        if not (key(fmt, prev[1]) < kv):
                            bad.append(("not-increasing-along-history", "%s on %s: distance %d gave %r, distance %d gives %r" % (fmt, br, prev[0], prev[1], base[1], out), case))
                    last[(br, fmt, base[0])] = (base[1], out)
            repo.clean()

        older = None
        if rng.random() < 0.4:
            older = new_tag()
            st["chain_two_tags"] += 1
            repo.commit()
        for _ in range(rng.randrange(0, 3)):
            repo.commit()
        early = None
        if rng.random() < 0.5:
            early = rng.choice(["feature/x", "develop", "topic", "feature/login-1"])
            repo.branch(early)           # forked BEFORE the release is tagged
            branches.append(early)
            if rng.random() < 0.5:
                repo.commit()
        new_tag(older)
        observe()
        tagc = repo.head_cid()
        if rng.random() < 0.45 and len(repo.anc(tagc)) > 1 and repo.head[0] == "branch":
            # release line tagged, then merged --no-ff into a line forked earlier: everything after the tag is a merge commit
            cur = repo.head[1]
            old = rng.choice(sorted(repo.anc(tagc) - {tagc}))
            if repo.branch("integration", old):
                branches.append("integration")
                repo.checkout("integration")
                if repo.merge(cur, force_noff=True):
                    st["chain_only_merges_after_tag"] = st.get("chain_only_merges_after_tag", 0) + 1
                    observe()
                repo.checkout(cur)
        if early and rng.random() < 0.8:
            repo.checkout(early)
            repo.commit()
            observe()
            if repo.merge("main"):       # the tag now arrives through the second parent only
                observe()
        for _ in range(rng.randrange(3, 11)):
            k = rng.random()
            if k < 0.55:
                repo.commit()
            elif k < 0.7 and len(branches) < 4:
                name = rng.choice(["develop", "feature/x", "feature/login-1", "release/3", "hotfix/7", "topic"])
                if repo.branch(name):
                    branches.append(name)
                    repo.checkout(name)
                continue
            elif k < 0.85:
                repo.checkout(rng.choice(branches))
            else:
                others = [b for b in branches if b != repo.head[1]]
                if not others or not repo.merge(rng.choice(others)):
                    continue
            observe()
        # GitFlow bookkeeping: a line forked before the tag takes the tagged line in with --no-ff, so the
        # only commit after the tag is a merge commit
        if rng.random() < 0.85 and repo.head[0] == "branch":
            cur = repo.head[1]
            old = rng.choice(sorted(repo.anc(repo.head_cid())))
            name = "main2" if "main2" not in repo.branches else "main3"
            if repo.branch(name, old):
                branches.append(name)
                repo.checkout(name)
                if repo.merge(cur, force_noff=True):
                    st["chain_bookkeeping_merges"] = st.get("chain_bookkeeping_merges", 0) + 1
                    observe()
                    if rng.random() < 0.5:
                        repo.checkout(cur)
                        repo.commit()
                        repo.checkout(name)
                        if repo.merge(cur, force_noff=True):
                            observe()
        # linked worktrees (.git is a file there): checked out exactly at a tag and at the current head
        import subprocess as _sp
        saved = (repo.head, repo.path)
        try:
            for k, cid in enumerate([rng.choice(repo.tags)["cid"], repo.head_cid()]):
                wt = os.path.join(home, "linked%d" % k)
                rr = _sp.run([core.REAL_GIT, "-C", saved[1], "worktree", "add", "-q", "--detach", wt, repo.commits[cid]["sha"]], env=repo.env, capture_output=True)
                if rr.returncode != 0:
                    continue
                repo.head, repo.path = ("detached", cid), wt
                st["chain_linked_worktrees"] = st.get("chain_linked_worktrees", 0) + 1
                observe()
        finally:
            repo.head, repo.path = saved
    except gitmodel.GitError as e:
        raise core.Inconclusive("chain generator: %s" % e)
    finally:
        import shutil
        shutil.rmtree(home, ignore_errors=True)
    return dict(bad=bad, st=st, sample=dict(ops=repo.ops[:14]))


def run(ctx):
    quick = ctx.tier == "quick"
    per = 130 if quick else 6000
    allbad = []
    for r in core.pmap(work_states, [(ctx.bins, "%s/%d/s%d" % (ctx.prop, ctx.seed, i), per) for i in range(32)]):
        ctx.merge_counts(r["st"])
        ctx.evaluations += r["st"].get("runs", 0)
        ctx.distinct_extra += r["distinct"]
        allbad += r["bad"]
        for s in r["samples"][:1]:
            ctx.sample(s, cap=3)
    for r in core.pmap(work_pretag, [(ctx.bins, "%s/%d/p%d" % (ctx.prop, ctx.seed, i), 12 if quick else 1200) for i in range(16)]):
        ctx.evaluations += r["n"]
        ctx.count("clean_prerelease_tag_runs", r["n"])
        allbad += r["bad"]
    nch = 110 if quick else 3000
    for r in core.pmap(work_chain, [(ctx.bins, "%s/%d" % (ctx.prop, ctx.seed), i, ctx.tmp) for i in range(nch)]):
        ctx.merge_counts(r["st"])
        ctx.evaluations += r["st"]["chain_observations"]
        ctx.distinct_extra += r["st"]["chain_observations"]
        allbad += r["bad"]
        ctx.sample(r["sample"], cap=5)
    for r in core.pmap(work_submodule, [(ctx.bins, "%s/%d" % (ctx.prop, ctx.seed), i, ctx.tmp) for i in range(6 if quick else 24)]):
        ctx.evaluations += r["n"]
        ctx.count("submodule_observations", r["n"])
        allbad += r["bad"]
    for sig, why, case in allbad:
        ctx.refute(sig, why, case)
    ctx.rule = ("%d random flow states on source none (final-release tags with numbers up to 2^32-2, pool and random branch names, dirty flags, rule sets, post "
                "modes, hash lengths 1-9, the 11 standard presets), each at 2-4 distances and in both output formats: bounds X.Y.Z < V < X.Y.(Z+1) (<= for the "
                "two presets without pre-release part), exactness when clean, strict growth with distance in commit mode; clean pre-release tags of flow's own "
                "shapes; %d real git histories (one base tag, 1-3 branches, merges, work-tree dirt) with flow run by the binary at every commit. "
                "non-trivial = distinct command lines / repository states" % (32 * per, nch))
    ctx.assumptions = ["comparators: SemVer 2.0.0 precedence and the real PEP 440 order, applied to zerv's output strings",
                       "context presets: 'exactly the tag' is judged on the public version (build metadata / local label stripped)"]


def replay(ctx, doc):
    c = doc["case"]
    if c["kind"] in ("state", "pretag"):
        r = core.run_zerv(ctx.bins, c["argv"])
        print("exit=%s out=%r err=%r" % (r["exit"], r["out"], r["err"][:300]))
        print(doc.get("what"))
        return 0
    r = work_submodule(ctx.bins, c["seed"], c["idx"], ctx.tmp) if c["kind"] == "submodule" else work_chain(ctx.bins, c["seed"], c["idx"], ctx.tmp)
    for b in r["bad"]:
        print(b[0], b[1])
    if r["bad"]:
        print("VIOLATION property=C03 replay=%s" % doc.get("_path", "?"))
        return 1
    return 0
