"""C08 — the SemVer parser accepts exactly SemVer 2.0.0 and loses nothing.

Observation: probe `parse_bulk` (SemVer::from_str + to_string on the real library),
probe `cli` check --format semver, and the real binary on a sample.
Oracle: zv.refs.semver (hand-written recogniser from the spec BNF)."""
import itertools

from .. import core
from ..refs import semver as ref

ALPHABET = ["0", "1", "9", "a", "Z", "-", ".", "+", "v", "٣", "é", "\u212a", "\u017f"]   # incl. Kelvin sign and long s (case-fold to k / s)
PREFIXES = ["1.2.3", "v0.0.9", "1.2.3-", "1.2.3+", "1.2.3-a.", "1.2.3-0.", "10.1.0-rc.1+", "1.2.3-a+", "0.0.", "1."]
EDIT_CHARS = ALPHABET + ["\n", " ", "\x00", "１", "𝟙", "_", "A", "z", "5", "V", "\t", "²"] + list("=*~^<>,;:@#$%&()[]{}|\\/'\"`?!") + ["\r", "\x0b", "\x1f", "\x7f", "\u00a0", "\ufeff", "\u200b", "\x01", "\x02", "\x08", "\x0e", "\x10", "\x1b"]
MINIMUMS = (20000, 200)
BATCH = 20000


def judge(s, accepted, display):
    """Returns None or (signature, reason)."""
    v = ref.parse(s, allow_v=True)
    if v is None:
        if accepted:
            sig = "unicode-digit-in-semver" if not s.isascii() else "semver-accepts-non-grammar"
            return (sig, "not SemVer 2.0.0 but accepted (printed %r)" % (display,))
        return None
    want = s[1:] if s.startswith("v") else s
    if ref.representable(v):
        if not accepted:
            return ("semver-rejects-valid", "valid SemVer 2.0.0 rejected")
        if display != want:
            if v[4] and any(b.isdigit() and int(b) > ref.U64 for b in v[4]):
                return ("semver-numeric-overflow-to-zero", "all-digit build identifier above u64 silently changed: printed %r" % (display,))
            return ("semver-print-differs", "printed %r, expected %r" % (display, want))
        return None
    # some numeric field > u64: reject, or print exactly
    if accepted and display != want:
        return ("semver-numeric-overflow-to-zero", "unrepresentable number silently changed: printed %r" % (display,))
    return None


def _probe_bulk(pr, strings):
    rep = pr.call(dict(op="parse_bulk", fmt="semver", strings=strings))
    if "bits" not in rep:
        raise core.Inconclusive("probe parse_bulk failed: %r" % (rep,))
    disp = {}
    for i, r in rep["accepted"]:
        disp[i] = r
    return rep["bits"], disp


def judge_batch(pr, strings, acc):
    bits, disp = _probe_bulk(pr, strings)
    for i, s in enumerate(strings):
        a = bits[i] == "1"
        d = None
        if a:
            r = disp[i]
            if "panic" in r:
                acc["bad"].append(("panic@" + r.get("at", "?").rsplit(":", 1)[0], "panic %s" % r["panic"], s, None))
                continue
            d = r["d"]
        v = judge(s, a, d)
        acc["n"] += 1
        if a:
            acc["accepted"] += 1
        if ref.parse(s, allow_v=True) is not None:
            acc["grammar"] += 1
        if v is not None:
            if len(acc["bad"]) < 40:
                acc["bad"].append((v[0], v[1], s, d))
            else:
                acc["bad"].append((v[0], None, None, None))


def _new_acc():
    return dict(n=0, accepted=0, grammar=0, bad=[])


def work_exhaustive(bins, prefix, first, length):
    """all strings prefix + first + (length-len(first)) more symbols"""
    pr = core.worker_probe(bins)
    acc = _new_acc()
    rest = length - len(first)
    buf = []
    for t in itertools.product(ALPHABET, repeat=rest):
        buf.append(prefix + first + "".join(t))
        if len(buf) >= BATCH:
            judge_batch(pr, buf, acc)
            buf = []
    if buf:
        judge_batch(pr, buf, acc)
    return acc


def work_list(bins, strings):
    pr = core.worker_probe(bins)
    acc = _new_acc()
    for part in core.chunks(strings, BATCH):
        judge_batch(pr, part, acc)
    return acc


def work_check_cli(bins, strings):
    """`zerv check --format semver s` must give the same verdict as the parser."""
    pr = core.worker_probe(bins)
    bits, disp = _probe_bulk(pr, strings)
    items = [dict(argv=["zerv", "check", "--format", "semver", "--", s]) for s in strings]
    rep = pr.call(dict(op="cli_batch", items=items))
    bad = []
    n = 0
    for i, (s, r) in enumerate(zip(strings, rep["results"])):
        if "\x00" in s:
            continue
        n += 1
        parsed = bits[i] == "1"
        if "panic" in r:
            bad.append(("panic@" + r.get("at", "?").rsplit(":", 1)[0], "check panicked: %s" % r["panic"], s, r))
            continue
        ok = "ok" in r
        if ok != parsed:
            bad.append(("semver-check-verdict-differs", "check says %s, parser says %s" % (ok, parsed), s, r))
        # the statement asks for the same verdict only; the wording of the report is free
    return dict(n=n, bad=bad)


def work_check_binary(bins, strings):
    bad = []
    n = 0
    pr = core.worker_probe(bins)
    bits, _ = _probe_bulk(pr, strings)
    for i, s in enumerate(strings):
        if "\x00" in s:
            continue
        # the verdict is a function of the string: something valid waiting on stdin (every other run) must not matter
        r = core.run_zerv(bins, ["check", "--format", "semver", "--", s], stdin="1.2.3\n" if i % 2 else None)
        n += 1
        if r["timeout"]:
            continue
        ok = r["exit"] == 0
        if ok != (bits[i] == "1"):
            bad.append(("semver-check-verdict-differs", "binary check exit %s, parser accepted=%s" % (r["exit"], bits[i]), s, r))
    return dict(n=n, bad=bad)


# -- generators ---------------------------------------------------------------
def gen_version(rng):
    nums = [0, 1, 2, 9, 10, 99, 2 ** 31, 2 ** 32, 2 ** 63, 2 ** 64 - 1]
    idents = ["alpha", "beta", "rc", "a", "Z", "-", "--", "x-y", "0a", "00a", "a0", "1a", "-1", "0-0", "post", "dev", "A-Z",
              "abcdefghijklmnopqrst", "1234567890123456789a", "0123456789abcdef0123456789abcdef01234567", "feature-some-long-branch-name", "a" * 64, "-" * 21, "9" * 19 + "x"]
    s = "%d.%d.%d" % (rng.choice(nums), rng.choice(nums), rng.choice(nums))
    if rng.random() < 0.7:
        k = rng.randrange(1, 6)
        parts = [str(rng.choice(nums)) if rng.random() < 0.4 else rng.choice(idents) for _ in range(k)]
        s += "-" + ".".join(parts)
    if rng.random() < 0.5:
        k = rng.randrange(1, 5)
        parts = [rng.choice(["0", "00", "001", "build", "sha", "5114f85", "-", "a-b", "20130313144700", "0123456789012345678901"]) for _ in range(k)]
        s += "+" + ".".join(parts)
    if rng.random() < 0.2:
        s = "v" + s
    return s


def mutate(s, rng):
    for _ in range(rng.choice([0, 1, 1, 2])):
        op = rng.randrange(3)
        i = rng.randrange(len(s) + 1)
        if op == 0:
            s = s[:i] + rng.choice(EDIT_CHARS) + s[i:]
        elif op == 1 and s:
            i = min(i, len(s) - 1)
            s = s[:i] + s[i + 1:]
        elif s:
            i = min(i, len(s) - 1)
            s = s[:i] + rng.choice(EDIT_CHARS) + s[i + 1:]
    return s


def numeric_edges():
    out = []
    big = [2 ** 64 - 1, 2 ** 64, 2 ** 64 + 1, 10 ** 20, 10 ** 30, 99999999999999999999999]
    for n in big:
        for z in ("", "0"):
            x = z + str(n)
            out += ["%s.0.0" % x, "0.%s.0" % x, "0.0.%s" % x, "1.2.3-%s" % x, "1.2.3-a.%s" % x, "1.2.3-%s.a" % x,
                    "1.2.3+%s" % x, "1.2.3-rc.%s+b" % x, "v%s.%s.%s" % (x, x, x), "1.2.3-%sa" % x, "1.2.3--%s" % x]
    # the grammar has no length limit: long identifiers, many identifiers, long build metadata (and the same with one bad character)
    for n in (255, 256, 257, 511, 512, 513, 1023, 1024, 1025, 2048, 4097, 20000, 70000):
        out += ["1.0.0-" + "a" * n, "1.0.0+" + "b" * n, "1.0.0-" + ".".join(["x1"] * (n // 3)), "1.0.0-rc.1+" + ".".join(["7"] * (n // 2)), "v1.2.3-" + "a-" * (n // 2) + "z",
                "1.0.0-" + "a" * n + "_", "1.0.0-" + ".".join(["x1"] * (n // 3)) + ".01", "1.0.0+" + "b" * n + "+", "9" * 19 + ".0.0-" + "k" * n]
    return out


def run(ctx):
    quick = ctx.tier == "quick"
    L = 6 if quick else 7
    SL = 4 if quick else 5
    jobs = []
    # (a) exhaustive short strings
    for n in range(0, L + 1):
        if n <= 3:
            jobs.append(("ex", "", "", n))
        else:
            for a in ALPHABET:
                if n >= 6:
                    for b in ALPHABET:
                        jobs.append(("ex", "", a + b, n))
                else:
                    jobs.append(("ex", "", a, n))
    # (b) exhaustive suffixes of grammar-relevant prefixes
    for p in PREFIXES:
        for n in range(1, SL + 1):
            if n <= 3:
                jobs.append(("ex", p, "", n))
            else:
                for a in ALPHABET:
                    jobs.append(("ex", p, a, n))
    res = core.pmap(work_exhaustive, [(ctx.bins, p, f, n) for (_, p, f, n) in jobs])
    total = _new_acc()
    for r in res:
        for k in ("n", "accepted", "grammar"):
            total[k] += r[k]
        total["bad"] += r["bad"]
    ctx.count("exhaustive_strings", total["n"])
    ctx.count("exhaustive_accepted_by_zerv", total["accepted"])
    ctx.count("exhaustive_in_grammar", total["grammar"])
    ctx.distinct_extra += total["grammar"]
    # (c) grammar-directed + edits, (d) numeric edges
    rng = ctx.sub_rng("gen")
    nrand = 120000 if quick else 2500000
    rand = set()
    for _ in range(nrand):
        rand.add(mutate(gen_version(rng), rng))
    rand = sorted(rand)
    edges = numeric_edges()
    valid0 = [s for s in rand if ref.parse(s, allow_v=False) is not None][:300]
    edges += [pre + s for s in valid0 for pre in ("v", "vv", "V", "vV", "v v")]
    # affixes around valid versions, judged against the grammar (not only check-versus-parser): exactly one lower-case `v` is optional
    edges += [pre + s for s in valid0[:150] for pre in ("vvv", "v ", " v", "v-", "version", "v.", "=", "==", "v\t", "~", "^", ">=", "\ufeff", "\u00a0", "r", "ver")]
    edges += [s + suf for s in valid0[:150] for suf in ("\n", " ", "v", ".", "+", "-", "\r", "\r\n", "\t", ".x", ".*", ",", ";", "\u00a0", "\x00"[:0] + "\x0b")]
    lists = core.split_even(rand, 16) + [edges]
    res2 = core.pmap(work_list, [(ctx.bins, l) for l in lists])
    for r in res2:
        for k in ("n", "accepted", "grammar"):
            total[k] += r[k]
        total["bad"] += r["bad"]
    ctx.count("generated_strings", len(rand) + len(edges))
    ctx.distinct_extra += len(rand)
    ctx.evaluations += total["n"]
    ctx.count("in_grammar_total", total["grammar"])
    ctx.count("accepted_total", total["accepted"])
    # check sub-command: every oracle-accepted generated string + a sample of the rest
    sample = [s for s in rand if ref.parse(s, allow_v=True) is not None][: (3000 if quick else 120000)]
    sample += rng.sample(rand, min(len(rand), 3000 if quick else 30000)) + edges
    sample += ["".join(t) for t in itertools.product(["1", "0", ".", "-", "a", "v", "+"], repeat=5)]
    # prefixes in front of valid versions: exactly one lower-case `v` is optional, nothing else is
    valid = [s for s in rand if ref.parse(s, allow_v=False) is not None][:400]
    for pre in ("v", "vv", "vvv", "V", "v ", " v", "v-", "version", "v.", "=", "v\t"):
        sample += [pre + s for s in valid[:120]]
    sample += [s + suf for s in valid[:120] for suf in ("\n", " ", "v", ".", "+", "-")]
    res3 = core.pmap(work_check_cli, [(ctx.bins, l) for l in core.split_even(sample, 32)])
    for r in res3:
        ctx.evaluations += r["n"]
        ctx.count("check_cli_runs", r["n"])
        total["bad"] += r["bad"]
    bsample = 2 * ["-", "--", "-.-", "@-", "v", "1.2.3", "1.0", "stdin", "/dev/stdin"] + rng.sample(sample, 400 if quick else 12000)      # `-` means "read stdin" to many tools
    res4 = core.pmap(work_check_binary, [(ctx.bins, l) for l in core.split_even(bsample, 16)])
    for r in res4:
        ctx.evaluations += r["n"]
        ctx.count("check_binary_runs", r["n"])
        total["bad"] += r["bad"]
    for sig, why, s, d in total["bad"]:
        if why is None:
            ctx.violations.append((sig, None))
        else:
            ctx.refute(sig, "%r: %s" % (s, why), dict(input=s), observed=d)
    for s in (rand[:3] + edges[:2] + [x for x in rand if ref.parse(x, True)][:4]):
        ctx.sample(dict(input=s, oracle_accepts=ref.parse(s, True) is not None))
    ctx.exhaustive = True
    ctx.rule = ("all strings of length <=%d over %r; all suffixes of length <=%d of %d grammar-relevant prefixes; %d grammar-directed versions "
                "with 0-2 random edits; numeric fields around 2^64; `check --format semver` verdict on %d strings in-process and %d on the binary. "
                "non-trivial = strings the reference grammar accepts plus distinct mutated strings" % (
                    L, "".join(ALPHABET), SL, len(PREFIXES), len(rand), len(sample), len(bsample)))
    ctx.assumptions = ["oracle: hand-written transcription of the semver.org BNF, ASCII only, optional single leading 'v'",
                       "numbers above u64: rejection or exact print both admitted (statement silent)"]


def replay(ctx, doc):
    s = doc["case"]["input"]
    pr = core.Probe(ctx.bins)
    bits, disp = _probe_bulk(pr, [s])
    a = bits[0] == "1"
    d = disp.get(0, {}).get("d") if a else None
    v = judge(s, a, d)
    r = core.run_zerv(ctx.bins, ["check", "--format", "semver", "--", s]) if "\x00" not in s else None
    print("input %r: zerv accepted=%s printed=%r; reference grammar accepts=%s; verdict=%s" % (s, a, d, ref.parse(s, True) is not None, v))
    if r:
        print("binary check: exit=%s out=%r err=%r" % (r["exit"], r["out"], r["err"][:200]))
        if (r["exit"] == 0) != a:
            v = v or ("semver-check-verdict-differs", "")
    pr.close()
    if v:
        print("VIOLATION property=C08 replay=%s" % doc.get("_path", "?"))
        return 1
    return 0
