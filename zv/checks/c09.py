"""C09 — the PEP 440 parser accepts exactly Appendix B and prints the normal form.

Observation: probe `parse_bulk` (PEP440::from_str, to_string, re-parse, ==), probe
`cli` check --format pep440, real binary on a sample.
Oracle: zv.refs.pep440 (Appendix-B regex with re.ASCII + own normaliser; cross-checked
against `packaging` when importable)."""
import itertools

from .. import core
from ..refs import pep440 as ref

ALPHA_A = ["0", "1", "a", "b", "c", "r", "p", ".", "-", "_", "+", "!", "v"]
LOOKALIKES = ["ſ", "K", "İ", "ı"]
SUFFIX_ALPHA = list("019abcdeilnoprstvw.-_+!") + ["ſ", "K"]
PREFIXES = ["1", "1.0", "1.0a", "1.0.post", "1.0+", "1!1", "1.0rc1", "1.0.dev", "1.0-", "1.0+a.", "1.0pre", "1.0.po", "1.0re", "v1.0a1.post1.de"]
EDIT_CHARS = list("019abcprv.-_+!") + ["\n", " ", "ſ", "K", "İ", "１", "٣", "A", "Z", "x", "\t", "é"] + list("=*~^<>,;:@#$%&()[]{}|\\/'\"`?") + ["\r", "\x0b", "\x1f", "\x7f", "\u00a0", "\ufeff", "\u200b", "\x01", "\x02", "\x08", "\x0e", "\x10", "\x1b", "\x7f"]
MINIMUMS = (20000, 500)
BATCH = 10000

try:
    from packaging.version import InvalidVersion as _Inv
    from packaging.version import Version as _PV
except Exception:  # pragma: no cover
    _PV = None


from ..refs.sanitize import _WS as _WHITE


def in_domain(s):
    """no surrounding white space: Unicode White_Space and, to be on the safe side, what Python's strip() adds to it (U+001C..1F); other control
    characters are not white space under any definition and stay in the domain"""
    return s == s.strip() and not (s and (s[0] in _WHITE or s[-1] in _WHITE)) and "\x00" not in s


def judge(s, accepted, r):
    v = ref.parse(s)
    if _PV is not None and s.isascii() and in_domain(s):
        try:
            pv = _PV(s)
        except _Inv:
            pv = None
        if (pv is None) != (v is None) or (pv is not None and str(pv) != ref.normal(v)):
            raise core.Inconclusive("oracle disagreement between zv.refs.pep440 and packaging on %r" % s)
    if v is None:
        if accepted:
            sig = "pep440-unicode-casefold" if not s.isascii() else "pep440-accepts-non-grammar"
            return (sig, "not PEP 440 but accepted (printed %r)" % (r.get("d"),))
        return None
    want = ref.normal(v)
    rep = ref.representable(v)
    if not accepted:
        return ("pep440-rejects-valid", "valid PEP 440 rejected") if rep else None
    d = r.get("d")
    if d != want:
        if not rep:
            return ("pep440-overflow-to-zero", "unrepresentable number silently changed: printed %r, normal form %r" % (d, want))
        return ("pep440-normal-form-differs", "printed %r, normal form is %r" % (d, want))
    if r.get("d2") != d:
        return ("pep440-not-idempotent", "re-parsing %r prints %r" % (d, r.get("d2")))
    if r.get("eq") is not True:
        return ("pep440-normal-form-not-equal", "parse(%r) != parse(%r)" % (s, d))
    return None


def _probe_bulk(pr, strings):
    rep = pr.call(dict(op="parse_bulk", fmt="pep440", strings=strings))
    if "bits" not in rep:
        raise core.Inconclusive("probe parse_bulk failed: %r" % (rep,))
    return rep["bits"], {i: r for i, r in rep["accepted"]}


def _new_acc():
    return dict(n=0, accepted=0, grammar=0, bad=[], normalised=0)


def judge_batch(pr, strings, acc):
    strings = [s for s in strings if in_domain(s)]
    if not strings:
        return
    bits, disp = _probe_bulk(pr, strings)
    for i, s in enumerate(strings):
        a = bits[i] == "1"
        r = disp.get(i, {}) if a else {}
        acc["n"] += 1
        if "panic" in r:
            acc["bad"].append(("panic@" + r.get("at", "?").rsplit(":", 1)[0], "panic %s" % r["panic"], s, None))
            continue
        if a:
            acc["accepted"] += 1
            if r.get("d") != s:
                acc["normalised"] += 1
        if ref.parse(s) is not None:
            acc["grammar"] += 1
        v = judge(s, a, r)
        if v is not None:
            if len(acc["bad"]) < 40:
                acc["bad"].append((v[0], v[1], s, r))
            else:
                acc["bad"].append((v[0], None, None, None))


def work_exhaustive(bins, alpha, prefix, first, length):
    pr = core.worker_probe(bins)
    acc = _new_acc()
    buf = []
    for t in itertools.product(alpha, repeat=length - len(first)):
        buf.append(prefix + first + "".join(t))
        if len(buf) >= BATCH:
            judge_batch(pr, buf, acc)
            buf = []
    judge_batch(pr, buf, acc)
    return acc


def work_list(bins, strings):
    pr = core.worker_probe(bins)
    acc = _new_acc()
    for part in core.chunks(strings, BATCH):
        judge_batch(pr, part, acc)
    return acc


_TOKCH = set("abcdefghijklmnopqrstuvwxyzABCDEFGHIJKLMNOPQRSTUVWXYZ0123456789.!+-_")


def _has_token(text, tok):
    """tok occurs in text and is not part of a longer version-like word there"""
    if not tok:
        return False
    i = text.find(tok)
    while i >= 0:
        before = text[i - 1] if i > 0 else " "
        after = text[i + len(tok)] if i + len(tok) < len(text) else " "
        if before not in _TOKCH and after not in _TOKCH:
            return True
        i = text.find(tok, i + 1)
    return False


def work_check_cli(bins, strings):
    pr = core.worker_probe(bins)
    strings = [s for s in strings if in_domain(s)]
    if not strings:
        return dict(n=0, bad=[])
    bits, disp = _probe_bulk(pr, strings)
    rep = pr.call(dict(op="cli_batch", items=[dict(argv=["zerv", "check", "--format", "pep440", "--", s]) for s in strings]))
    bad = []
    for i, (s, r) in enumerate(zip(strings, rep["results"])):
        parsed = bits[i] == "1"
        if "panic" in r:
            bad.append(("panic@" + r.get("at", "?").rsplit(":", 1)[0], "check panicked: %s" % r["panic"], s, r))
            continue
        ok = "ok" in r
        if ok != parsed:
            bad.append(("pep440-check-verdict-differs", "check says %s, parser says %s" % (ok, parsed), s, r))
        elif ok:
            txt = r["ok"]
            d = disp[i].get("d")
            # "reports the same verdict and normal form": the normal form has to be in the report as a whole word; the wording around it is free
            if not _has_token(txt, d):
                bad.append(("pep440-check-normal-form-missing", "normal form %r is not in the report %r" % (d, txt[:200]), s, r))
    return dict(n=len(strings), bad=bad)


def work_check_binary(bins, strings):
    pr = core.worker_probe(bins)
    strings = [s for s in strings if in_domain(s)]
    bits, disp = _probe_bulk(pr, strings)
    bad = []
    for i, s in enumerate(strings):
        # the verdict is a function of the string: something valid waiting on stdin (every other run) must not matter
        r = core.run_zerv(bins, ["check", "--format", "pep440", "--", s], stdin="1.0rc1\n" if i % 2 else None)
        if r["timeout"]:
            continue
        ok = r["exit"] == 0
        if ok != (bits[i] == "1"):
            bad.append(("pep440-check-verdict-differs", "binary exit %s, parser accepted=%s" % (r["exit"], bits[i]), s, r))
        if ok and bits[i] == "1" and not _has_token(r["out"], disp[i].get("d")):
            bad.append(("pep440-check-normal-form-missing", "binary check report %r does not show the normal form %r" % (r["out"][:200], disp[i].get("d")), s, r))
    return dict(n=len(strings), bad=bad)


def gen_struct(rng):
    nums = [0, 1, 2, 9, 10, 2 ** 31, 2 ** 32 - 1]
    v = dict(epoch=rng.choice([0, 0, 0, 1, 7, 2 ** 32 - 1]),
             release=tuple(rng.choice(nums) for _ in range(rng.choice([1, 1, 2, 3, 3, 4, 6]))),
             pre=rng.choice([None, None] + [(l, rng.choice(nums)) for l in ("a", "b", "rc")]),
             post=rng.choice([None, None] + nums), dev=rng.choice([None, None] + nums),
             local=rng.choice([None, None, (1,), ("a",), ("ubuntu", 1), (0, "x", 10), ("abc", "def", 7, 0), (2 ** 32 - 1,), ("a" * 30,)]))
    return ref.spell(v, rng)


def mutate(s, rng):
    for _ in range(rng.choice([0, 0, 1, 1, 2])):
        op = rng.randrange(3)
        i = rng.randrange(len(s) + 1)
        if op == 0:
            s = s[:i] + rng.choice(EDIT_CHARS) + s[i:]
        elif s:
            i = min(i, len(s) - 1)
            s = s[:i] + (rng.choice(EDIT_CHARS) if op == 1 else "") + s[i + 1:]
    return s


def numeric_edges():
    out = []
    for n in [2 ** 32 - 1, 2 ** 32, 2 ** 32 + 1, 99999999999, 2 ** 64, 10 ** 30]:
        for z in ("", "00"):
            x = z + str(n)
            out += ["%s.0" % x, "1.%s" % x, "%s!1.0" % x, "1.0a%s" % x, "1.0b%s" % x, "1.0rc%s" % x, "1.0.post%s" % x, "1.0-%s" % x,
                    "1.0.dev%s" % x, "1.0+%s" % x, "1.0+a.%s" % x, "1.0+%s.a" % x, "1.0a%s.post%s.dev%s+%s" % (x, x, x, x), "1.0+a%s" % x]
    # long zero paddings of representable numbers (value fits, text is long)
    for n in [0, 1, 7, 2 ** 32 - 1]:
        for z in ("0" * 8, "0" * 12, "0" * 40):
            x = z + str(n)
            out += ["%s.0" % x, "1.%s" % x, "%s!1.0" % x, "1.0a%s" % x, "1.0rc%s" % x, "1.0.post%s" % x, "1.0-%s" % x, "1.0.dev%s" % x, "1.0+%s" % x,
                    "1.0+a.%s" % x, "v%s.%s.%s" % (x, x, x)]
    # no length limit in the grammar: long local segments, many of them, long releases (and the same with one bad character)
    for n in (255, 256, 257, 511, 512, 513, 1023, 1024, 1025, 2048, 4097, 20000):
        out += ["1.0+" + "a" * n, "1.0+" + ".".join(["x1"] * (n // 3)), "1!" + ".".join(["1"] * (n // 2)), "1.0rc1.post2.dev3+" + "-".join(["ab"] * (n // 3)), "V1.0+" + "A" * n,
                "1.0+" + "a" * n + "+", "1.0+" + ".".join(["x1"] * (n // 3)) + "..a", "1!" + ".".join(["1"] * (n // 2)) + "."]
    return out


def run(ctx):
    quick = ctx.tier == "quick"
    jobs = []
    LA = 5 if quick else 6          # ASCII alphabet depth
    LB = 4 if quick else 5          # with look-alikes
    SL = 3 if quick else 4
    full = ALPHA_A + LOOKALIKES
    for n in range(0, LA + 1):
        if n <= 3:
            jobs.append((ALPHA_A, "", "", n))
        else:
            for a in ALPHA_A:
                if n >= 6:
                    for b in ALPHA_A:
                        jobs.append((ALPHA_A, "", a + b, n))
                else:
                    jobs.append((ALPHA_A, "", a, n))
    for n in range(1, LB + 1):
        # strings containing at least one look-alike are the new ones; enumerate all, cheap
        if n <= 3:
            jobs.append((full, "", "", n))
        else:
            for a in full:
                jobs.append((full, "", a, n))
    for p in PREFIXES:
        for n in range(1, SL + 1):
            if n <= 2:
                jobs.append((SUFFIX_ALPHA, p, "", n))
            else:
                for a in SUFFIX_ALPHA:
                    jobs.append((SUFFIX_ALPHA, p, a, n))
    res = core.pmap(work_exhaustive, [(ctx.bins,) + j for j in jobs])
    total = _new_acc()
    for r in res:
        for k in ("n", "accepted", "grammar", "normalised"):
            total[k] += r[k]
        total["bad"] += r["bad"]
    ctx.count("exhaustive_strings", total["n"])
    ctx.distinct_extra += total["grammar"]
    rng = ctx.sub_rng("gen")
    nrand = 150000 if quick else 3000000
    rand = set()
    for _ in range(nrand):
        rand.add(mutate(gen_struct(rng), rng))
    rand = sorted(rand)
    edges = numeric_edges()
    # affixes around valid versions, judged against the grammar: a `v` prefix is part of it, nothing else is (surrounding whitespace is outside the domain)
    valid0 = [s_ for s_ in rand if ref.parse(s_) is not None and not s_.lower().startswith("v")][:150]
    edges += [pre + s_ for s_ in valid0 for pre in ("v", "V", "vv", "v.", "v-", "version", "=", "==", "~=", ">=", "^", "~", "\ufeff", "r", "ver", "v!", "!")]
    edges += [c_ + s_ for s_ in valid0[:60] for c_ in ("\x01", "\x08", "\x0e", "\x1b", "\x7f", "\x10")] + [s_ + c_ for s_ in valid0[:60] for c_ in ("\x01", "\x02", "\x0f", "\x1a", "\x1b", "\x7f")]
    edges += [s_ + suf for s_ in valid0 for suf in (".", "+", "-", "_", "!", ".*", ".x", ",", ";", "v", "\u200b", "\x00"[:0] + "\x7f", "+.", "+a.", ".post", ".dev", "a", "rc")]
    res2 = core.pmap(work_list, [(ctx.bins, l) for l in core.split_even(rand, 16) + [edges]])
    for r in res2:
        for k in ("n", "accepted", "grammar", "normalised"):
            total[k] += r[k]
        total["bad"] += r["bad"]
    ctx.distinct_extra += len(rand)
    ctx.evaluations += total["n"]
    ctx.count("generated_strings", len(rand) + len(edges))
    ctx.count("in_grammar_total", total["grammar"])
    ctx.count("accepted_total", total["accepted"])
    ctx.count("accepted_and_printed_differently", total["normalised"])
    sample = [s for s in rand if ref.parse(s) is not None][: (4000 if quick else 150000)]
    sample += rng.sample(rand, min(len(rand), 3000 if quick else 30000)) + edges
    sample += ["".join(t) for t in itertools.product(["1", "0", ".", "-", "a", "v", "+", "r"], repeat=4)]
    # spellings whose ONLY departure from the normal form is letter case (1.0RC1, 1.0.POST1, 1.0+ABC.5): the report must still show the normal form
    ups = set()
    for s_ in rand:
        v_ = ref.parse(s_)
        if v_ is not None and ref.representable(v_):
            nf = ref.normal(v_)
            if any(ch.isalpha() for ch in nf):
                ups.add(nf.upper())
                ups.add("".join(ch.upper() if i % 2 else ch for i, ch in enumerate(nf)))
        if len(ups) >= (1500 if quick else 40000):
            break
    sample += sorted(ups)
    ctx.count("check_case_only_spellings", len(ups))
    res3 = core.pmap(work_check_cli, [(ctx.bins, l) for l in core.split_even(sample, 32)])
    for r in res3:
        ctx.evaluations += r["n"]
        ctx.count("check_cli_runs", r["n"])
        total["bad"] += r["bad"]
    bsample = 2 * ["-", "--", "-.-", "@-", "v", "1.2.3", "1.0", "stdin", "/dev/stdin"] + rng.sample(sample, 400 if quick else 12000)      # `-` means "read stdin" to many tools
    res4 = core.pmap(work_check_binary, [(ctx.bins, l) for l in core.split_even(bsample, 16)])
    for r in res4:
        ctx.evaluations += r["n"]
        ctx.count("check_binary_runs", r["n"])
        total["bad"] += r["bad"]
    for sig, why, s, d in total["bad"]:
        if why is None:
            ctx.violations.append((sig, None))
        else:
            ctx.refute(sig, "%r: %s" % (s, why), dict(input=s), observed=d)
    for s in [x for x in rand if ref.parse(x)][:5] + rand[:3] + edges[:2]:
        v = ref.parse(s)
        ctx.sample(dict(input=s, oracle_normal_form=ref.normal(v) if v else None))
    ctx.exhaustive = True
    ctx.notes.append("packaging cross-check of the oracle: %s" % ("on" if _PV is not None else "off (packaging not importable)"))
    ctx.rule = ("all strings of length <=%d over %r and <=%d with the case-folding look-alikes %r added; all suffixes of length <=%d over a "
                "%d-symbol alphabet after %d prefixes; %d structured spellings with 0-2 edits; numeric fields around 2^32; check sub-command verdict "
                "and report text. non-trivial = strings Appendix B accepts plus distinct generated strings; strings with surrounding whitespace excluded" % (
                    LA, "".join(ALPHA_A), LB, "".join(LOOKALIKES), SL, len(SUFFIX_ALPHA), len(PREFIXES), len(rand)))
    ctx.assumptions = ["oracle: PEP 440 Appendix B regex compiled with re.ASCII, own normaliser", "numbers above u32: rejection or exact print admitted"]


def replay(ctx, doc):
    s = doc["case"]["input"]
    pr = core.Probe(ctx.bins)
    bits, disp = _probe_bulk(pr, [s])
    a = bits[0] == "1"
    v = judge(s, a, disp.get(0, {}))
    print("input %r: zerv accepted=%s %r; Appendix B accepts=%s normal=%r; verdict=%s" % (
        s, a, disp.get(0), ref.parse(s) is not None, ref.normal(ref.parse(s)) if ref.parse(s) else None, v))
    r = core.run_zerv(ctx.bins, ["check", "--format", "pep440", "--", s])
    print("binary check: exit=%s out=%r err=%r" % (r["exit"], r["out"], r["err"][:200]))
    if (r["exit"] == 0) != a:
        v = v or ("pep440-check-verdict-differs", "")
    pr.close()
    if v:
        print("VIOLATION property=C09 replay=%s" % doc.get("_path", "?"))
        return 1
    return 0
