"""C15 — template variables agree with the rendered version; functions keep contracts.

Observation: probe `template` (Template<String>::render on the real library with the real
Tera functions) and `zerv_obj` (direct SemVer / PEP 440 rendering of the same object); the
real binary `version --source stdin --output-template ...` vs `--output-format ...` on a sample.
Oracle: string identities from the statement, zv.refs.sanitize, zv.refs.cal; shards run
under different TZ values."""
import random

from .. import core, objgen, ron
from ..refs import cal
from ..refs import sanitize as san

MINIMUMS = (2000, 300)
L, R = "‹", "›"     # field delimiters (defeat trimming and the none/null keyword rule)
TZS = ["UTC", "Pacific/Kiritimati", "Pacific/Pago_Pago", "Asia/Kolkata"]

FIELDS = ["semver", "pep440", "semver_obj.base_part", "semver_obj.pre_release_part", "semver_obj.build_part", "semver_obj.docker",
          "pep440_obj.base_part", "pep440_obj.pre_release_part", "pep440_obj.build_part",
          "major", "minor", "patch", "epoch", "post", "dev", "distance", "dirty", "bumped_branch", "bumped_commit_hash",
          "bumped_commit_hash_short", "bumped_timestamp", "last_commit_hash", "last_commit_hash_short", "last_timestamp",
          "pre_release.label", "pre_release.number", "pre_release.label_code", "pre_release.label_pep440",
          "custom.s1", "custom.s2", "custom.n", "custom.flag", "custom.meta.k"]
NO_PRE = [f for f in FIELDS if not f.startswith("pre_release.")]


def tpl(fields):
    return "".join("%s{{ %s }}%s" % (L, f, R) for f in fields)


def split_fields(text, n):
    if text is None:
        return None
    parts = []
    i = 0
    while True:
        a = text.find(L, i)
        if a < 0:
            break
        b = text.find(R, a + 1)
        if b < 0:
            return None
        parts.append(text[a + 1:b])
        i = b + 1
    return parts if len(parts) == n else None


def show(x):
    if x is None:
        return ""
    if x is True:
        return "true"
    if x is False:
        return "false"
    return str(x)


LABEL = {"Alpha": ("alpha", "a"), "Beta": ("beta", "b"), "Rc": ("rc", "rc")}


def gen_obj(rng, ascii_only):
    schema = objgen.rand_schema(rng, ascii_only=ascii_only) if rng.random() < 0.6 else dict(
        core=[("var", "Major"), ("var", "Minor"), ("var", "Patch")],
        extra_core=[("var", "Epoch"), ("var", "PreRelease"), ("var", "Post"), ("var", "Dev")],
        build=[("var", "BumpedBranch"), ("var", "Distance"), ("var", "BumpedCommitHashShort")])
    v = objgen.rand_vars(rng, ascii_only=ascii_only, bound=2 ** 32)
    if rng.random() < 0.06:
        v["bumped_timestamp"] = rng.choice([10 ** 11 - 1, 10 ** 11, 10 ** 11 + 86400 * 31, 253402300799, 2 ** 33, 2 ** 36, 0, 0, 1, 86399, 86400, 2 ** 31 - 1, 2 ** 31])
    if rng.random() < 0.03:
        v["last_timestamp"] = rng.choice([10 ** 11, 253402300799, 99999999999, 0, 1])
    if rng.random() < 0.08:
        # words that merely contain the keywords a template result is compared with ("none", "null", "nil")
        v["bumped_branch"] = rng.choice(["feature/vanilla-theme", "nonetheless", "nullable-types", "Manila", "none-such", "xnullx", "NONE.1", "phenyl/nil-check", "annul", "release/nonempty"])
    clean = lambda s: s.replace(L, "").replace(R, "").replace("\x00", "") if isinstance(s, str) else s
    for k in ("bumped_branch", "bumped_commit_hash", "last_commit_hash", "last_branch"):
        v[k] = clean(v[k])
    v["custom"] = {"s1": clean(objgen.rand_text(rng, ascii_only)), "s2": rng.choice(["Feature/API-v2", "0051", "a..b", "", "x" * 40, "UPPER_lower-007", " ", "   ", "\t", " a ", "0", "false", "x" * 200]),
                   "n": rng.choice([0, 7, 42, 2 ** 31]), "flag": rng.choice([True, False]), "meta": {"k": rng.choice(["v", "1.2", ""])}}
    return schema, v


def expect_scalars(v):
    pre = v.get("pre_release")
    e = {
        "major": show(v.get("major")), "minor": show(v.get("minor")), "patch": show(v.get("patch")), "epoch": show(v.get("epoch")),
        "post": show(v.get("post")), "dev": show(v.get("dev")), "distance": show(v.get("distance")), "dirty": show(v.get("dirty")),
        "bumped_branch": show(v.get("bumped_branch")), "bumped_commit_hash": show(v.get("bumped_commit_hash")),
        "bumped_commit_hash_short": show(v["bumped_commit_hash"][:8] if v.get("bumped_commit_hash") is not None else None),
        "bumped_timestamp": show(v.get("bumped_timestamp")), "last_commit_hash": show(v.get("last_commit_hash")),
        "last_commit_hash_short": show(v["last_commit_hash"][:8] if v.get("last_commit_hash") is not None else None),
        "last_timestamp": show(v.get("last_timestamp")),
        "custom.s1": v["custom"]["s1"], "custom.s2": v["custom"]["s2"], "custom.n": str(v["custom"]["n"]),
        "custom.flag": show(v["custom"]["flag"]), "custom.meta.k": v["custom"]["meta"]["k"],
    }
    if pre is not None:
        e["pre_release.label"] = LABEL[pre[0]][0]
        e["pre_release.number"] = show(pre[1])
        e["pre_release.label_code"] = LABEL[pre[0]][1]
        e["pre_release.label_pep440"] = LABEL[pre[0]][1]
    return e


def judge_fields(vals, names, v, direct):
    """vals: dict field->text. direct: dict(semver=..., pep440=...) from the direct rendering."""
    out = []
    f = dict(zip(names, vals))
    if f["semver"] != direct["semver"]:
        out.append(("template-semver-differs", "{{ semver }} = %r but --output-format semver prints %r" % (f["semver"], direct["semver"])))
    if f["pep440"] != direct["pep440"]:
        out.append(("template-pep440-differs", "{{ pep440 }} = %r but --output-format pep440 prints %r" % (f["pep440"], direct["pep440"])))
    sem = f["semver_obj.base_part"]
    if f["semver_obj.pre_release_part"]:
        sem += "-" + f["semver_obj.pre_release_part"]
    if f["semver_obj.build_part"]:
        sem += "+" + f["semver_obj.build_part"]
    if sem != f["semver"]:
        out.append(("semver-parts-do-not-recompose", "base/pre/build parts give %r, {{ semver }} is %r" % (sem, f["semver"])))
    pep = f["pep440_obj.base_part"] + f["pep440_obj.pre_release_part"]
    if f["pep440_obj.build_part"]:
        pep += "+" + f["pep440_obj.build_part"]
    if pep != f["pep440"]:
        out.append(("pep440-parts-do-not-recompose", "base/pre/build parts give %r, {{ pep440 }} is %r" % (pep, f["pep440"])))
    if f["semver_obj.docker"] != f["semver"].replace("+", "-"):
        out.append(("docker-form-differs", "docker %r, SemVer %r" % (f["semver_obj.docker"], f["semver"])))
    for k, want in expect_scalars(v).items():
        if k in f and f[k] != want:
            out.append(("scalar-differs", "{{ %s }} = %r, the object holds %r" % (k, f[k], want)))
    return out


SAN_PRESETS = {"semver_str": False, "semver": False, "dotted": False, "pep440_local_str": True, "pep440": True, "lower_dotted": True}
FMT_OK = ["%Y-%m-%d", "%Y%m%d", "%H:%M:%S", "%Y/%m/%d %H-%M-%S", "%j", "%y.%m", "%d.%m.%Y %H%M", "%Y", "%%%Y"]


# (literal as written in the template, the number of characters it denotes or None when it denotes no length)
ODD_LENGTHS = [("-1", None), ("2.0", 2), ("2.5", 2), ("'3'", 3), ("true", None), ("1e0", 1), ("0.0", 0), ("-0.5", None), ("'x'", None), ("[2]", None), ("18446744073709551616", 2 ** 64), ("-9223372036854775808", None)]


def gen_calls(rng, v):
    """list of (template expr, judge(text) -> reason|None, key for hash table or None)"""
    calls = []
    srcs = [("bumped_branch", v.get("bumped_branch")), ("custom.s1", v["custom"]["s1"]), ("custom.s2", v["custom"]["s2"]),
            ("bumped_commit_hash", v.get("bumped_commit_hash")), ("post", v.get("post")), ("custom.n", v["custom"]["n"])]
    for _ in range(6):
        name, raw = rng.choice(srcs)
        text = show(raw)
        k = rng.random()
        if k < 0.17:
            n = rng.choice([0, 1, 3, 7, 8, 15, 16, 17, 30])
            calls.append(("hash(value=%s, length=%d)" % (name, n),
                          (lambda t, n=n: None if (len(t) <= n and all(c in "0123456789abcdef" for c in t)) else "hash() returned %r for length %d" % (t, n)),
                          ("hash", text, n)))
        elif k < 0.34:
            n = rng.choice([0, 1, 2, 5, 7, 10, 19, 20, 21, 30, 70000])
            lz = rng.choice([None, True, False])
            expr = "hash_int(value=%s, length=%d%s)" % (name, n, "" if lz is None else ", allow_leading_zero=%s" % ("true" if lz else "false"))

            def j(t, n=n, lz=lz):
                if len(t) > n:
                    return "hash_int() returned %d characters for length %d" % (len(t), n)
                if not all(c in "0123456789" for c in t):
                    return "hash_int() returned non-digits %r" % t
                if not lz and len(t) > 1 and t[0] == "0":
                    return "hash_int() returned a leading zero %r although not allowed" % t
                return None
            calls.append((expr, j, ("hash_int", text, n, bool(lz))))
        elif k < 0.5:
            n = rng.choice([0, 1, 2, 3, 5, 8, 10, 100])
            calls.append(("prefix(value=%s, length=%d)" % (name, n), (lambda t, n=n, text=text: None if t == text[:n] else "prefix() returned %r, first %d characters are %r" % (t, n, text[:n])), None))
        elif k < 0.62:
            p = rng.choice(["+", "-", ".", "v", "pre."])
            calls.append(("prefix_if(value=%s, prefix='%s')" % (name, p), (lambda t, p=p, text=text: None if t == ((p + text) if text else "") else "prefix_if() returned %r for value %r" % (t, text)), None))
        elif k < 0.85:
            kk = rng.random()
            if kk < 0.3:
                preset = rng.choice(list(SAN_PRESETS))
                lower = SAN_PRESETS[preset]
                calls.append(("sanitize(value=%s, preset='%s')" % (name, preset),
                              (lambda t, lower=lower, text=text: None if t == san.sanitize(text, ".", lower, False, None) else "sanitize preset returned %r, contract gives %r" % (t, san.sanitize(text, ".", lower, False, None))), None))
            elif kk < 0.4:
                calls.append(("sanitize(value=%s)" % name, (lambda t, text=text: None if t == san.sanitize(text, ".", False, False, None) else "sanitize() returned %r, contract gives %r" % (t, san.sanitize(text, ".", False, False, None))), None))
            elif kk < 0.5:
                calls.append(("sanitize(value=%s, preset='uint')" % name, (lambda t, text=text: None if t in san.uint_admissible(text) else "sanitize uint returned %r, contract admits %r" % (t, sorted(san.uint_admissible(text)))), None))
            else:
                sep = rng.choice([".", "-", "_", "--", "-.", "::", "---", "...", "_-_"])
                lower = rng.choice([True, False])
                kz = rng.choice([True, False])
                ml = rng.choice([None, 0, 1, 3, 5, 12])
                args = "separator='%s', lowercase=%s, keep_zeros=%s" % (sep, "true" if lower else "false", "true" if kz else "false")
                if ml is not None:
                    args += ", max_length=%d" % ml
                if rng.random() < 0.35:
                    # a single custom argument: the others take their documented defaults (separator '.', keep case, strip zeros, no limit)
                    which = rng.choice(["ml", "lower", "kz", "sep"])
                    sep2, lower2, kz2, ml2 = ".", False, False, None
                    if which == "ml":
                        ml2 = rng.choice([0, 1, 3, 7, 12])
                        args = "max_length=%d" % ml2
                    elif which == "lower":
                        lower2 = rng.choice([True, False])
                        args = "lowercase=%s" % ("true" if lower2 else "false")
                    elif which == "kz":
                        kz2 = rng.choice([True, False])
                        args = "keep_zeros=%s" % ("true" if kz2 else "false")
                    else:
                        sep2 = rng.choice(["-", "_", ".", "--", "~~", "---", "____"])
                        args = "separator='%s'" % sep2
                    sep, lower, kz, ml = sep2, lower2, kz2, ml2
                    if which != "sep":
                        # no separator argument: the text is kept as it is (documented for the sanitiser: separator none);
                        # what the statement still fixes is the length limit
                        def jn(t, ml=ml, text=text, which=which, lower2=lower2, kz2=kz2):
                            if ml is not None and len(t) > ml:
                                return "sanitize(max_length=%d) returned %d characters: %r" % (ml, len(t), t)
                            # whatever else "no separator" means, the one argument that was given has to be honoured
                            if which == "lower":
                                if lower2 and any("A" <= ch <= "Z" for ch in t):
                                    return "sanitize(lowercase=true) returned %r: upper-case letters left" % t
                                if not lower2 and [ch for ch in t if ch.isascii() and ch.isalpha()] != [ch for ch in text if ch.isascii() and ch.isalpha()]:
                                    return "sanitize(lowercase=false) returned %r for %r: the letters changed" % (t, text)
                            if which == "kz" and text.isascii() and text.isdigit():
                                if kz2 and t != text:
                                    return "sanitize(keep_zeros=true) returned %r for the digits %r" % (t, text)
                                if not kz2 and len(t) > 1 and t[0] == "0":
                                    return "sanitize(keep_zeros=false) returned %r: leading zero kept" % t
                            return None
                        calls.append(("sanitize(value=%s, %s)" % (name, args), jn, None))
                        continue

                def j(t, sep=sep, lower=lower, kz=kz, ml=ml, text=text):
                    adm = san.admissible(text, sep, lower, kz, ml)
                    if t not in adm or san.predicates(t, sep, kz, ml):
                        return "sanitize(%s) returned %r, contract admits %r" % ((sep, lower, kz, ml), t, sorted(adm))
                    return None
                calls.append(("sanitize(value=%s, %s)" % (name, args), j, None))
        else:
            tsname, ts = rng.choice([("bumped_timestamp", v.get("bumped_timestamp")), ("last_timestamp", v.get("last_timestamp"))])
            if ts is None:
                continue
            kk = rng.random()
            if kk < 0.2:
                calls.append(("format_timestamp(value=%s)" % tsname, (lambda t, ts=ts: None if t == cal.strftime_utc("%Y-%m-%d", ts) else "format_timestamp default returned %r, UTC date is %r" % (t, cal.strftime_utc("%Y-%m-%d", ts))), None))
            elif kk < 0.45:
                nm = rng.choice(["compact_date", "compact_datetime"])
                calls.append(("format_timestamp(value=%s, format='%s')" % (tsname, nm), (lambda t, ts=ts, nm=nm: None if t == cal.resolve(nm, ts) else "format_timestamp %s returned %r, UTC gives %r" % (nm, t, cal.resolve(nm, ts))), None))
            else:
                fm = rng.choice(FMT_OK)
                calls.append(("format_timestamp(value=%s, format='%s')" % (tsname, fm), (lambda t, ts=ts, fm=fm: None if t == cal.strftime_utc(fm, ts) else "format_timestamp(%r) returned %r, UTC gives %r" % (fm, t, cal.strftime_utc(fm, ts))), None))
    return calls


def work(bins, seed, n, tz):
    rng = random.Random(seed)
    pr = core.worker_probe(bins, key="tz:" + tz, env=core.base_env(bins, tz=tz))
    bad = []
    st = {"objects": 0, "field_templates": 0, "function_calls": 0, "nonascii_objects": 0}
    hashes = {}
    distinct = set()
    samples = []
    for i in range(n):
        ascii_only = (i % 3) != 0
        schema, v = gen_obj(rng, ascii_only)
        text = ron.zerv_to_ron(schema, v)
        d = pr.call(dict(op="zerv_obj", ron=text))
        case = dict(kind="obj", ron=text, tz=tz)
        if not d.get("ok") or not isinstance(d.get("semver"), str) or not isinstance(d.get("pep440"), str):
            if "panic" in d or isinstance(d.get("semver"), dict) or isinstance(d.get("pep440"), dict):
                bad.append(("panic-while-rendering", "direct rendering panicked: %r" % (d,), case))
            continue
        st["objects"] += 1
        if not ascii_only:
            st["nonascii_objects"] += 1
        names = FIELDS if v.get("pre_release") is not None else NO_PRE
        r = pr.call(dict(op="template", template=tpl(names), ron=text))
        st["field_templates"] += 1
        distinct.add(hash(text))
        if "panic" in r:
            bad.append(("panic@" + r.get("at", "?").rsplit(":", 1)[0], "template rendering panicked: %s" % r["panic"], case))
            continue
        vals = split_fields(r.get("ok"), len(names)) if "ok" in r else None
        if vals is None:
            bad.append(("template-render-failed", "field template failed: %r" % (r,), case))
            continue
        for sig, why in judge_fields(vals, names, v, d):
            bad.append((sig, why, case))
        calls = gen_calls(rng, v)
        if calls:
            t2 = "".join("%s{{ %s }}%s" % (L, c[0], R) for c in calls)
            r2 = pr.call(dict(op="template", template=t2, ron=text))
            st["function_calls"] += len(calls)
            case2 = dict(kind="calls", ron=text, template=t2, tz=tz)
            if "panic" in r2:
                bad.append(("panic@" + r2.get("at", "?").rsplit(":", 1)[0], "function call panicked: %s [%s]" % (r2["panic"], t2[:200]), case2))
                continue
            vals2 = split_fields(r2.get("ok"), len(calls)) if "ok" in r2 else None
            if vals2 is None:
                bad.append(("template-function-failed", "documented function call failed: %r [%s]" % (r2, t2[:300]), case2))
                continue
            for (expr, j, hk), t in zip(calls, vals2):
                why = j(t)
                if why:
                    sig = "function-contract-" + expr.split("(")[0]
                    bad.append((sig, "%s: %s (TZ=%s)" % (expr, why, tz), case2))
                if hk is not None:
                    if hk in hashes and hashes[hk] != t:
                        bad.append(("hash-not-a-function", "%s gave %r and %r for the same value" % (expr, hashes[hk], t), case2))
                    hashes[hk] = t
            if len(samples) < 2:
                samples.append(dict(template=t2[:300], output=r2.get("ok", "")[:200]))
        # "at most `length` characters" when the length is not written as a plain non-negative integer: a refusal is fine, a result has to respect
        # the number the argument denotes - silently falling back to the default length is neither
        if rng.random() < 0.35:
            fn = rng.choice(["hash", "hash_int", "prefix", "sanitize"])
            lit, denotes = rng.choice(ODD_LENGTHS)
            src = rng.choice(["bumped_branch", "custom.s1", "bumped_commit_hash"])
            expr = "%s(value=%s, %s=%s%s)" % (fn, src, "max_length" if fn == "sanitize" else "length", lit, ", separator='-'" if fn == "sanitize" else "")
            r3 = pr.call(dict(op="template", template="%s{{ %s }}%s" % (L, expr, R), ron=text))
            st["odd_argument_calls"] = st.get("odd_argument_calls", 0) + 1
            case3 = dict(kind="calls", ron=text, template="%s{{ %s }}%s" % (L, expr, R), tz=tz)
            if "panic" in r3:
                bad.append(("panic@" + r3.get("at", "?").rsplit(":", 1)[0], "function call panicked: %s [%s]" % (r3["panic"], expr), case3))
            elif "ok" in r3:
                got = split_fields(r3["ok"], 1)
                if got is not None:
                    st["odd_argument_accepted"] = st.get("odd_argument_accepted", 0) + 1
                    if denotes is None:
                        bad.append(("function-ignores-argument", "%s was accepted and returned %r: the argument is no length and was silently ignored" % (expr, got[0]), case3))
                    elif len(got[0]) > denotes:
                        bad.append(("function-ignores-argument", "%s returned %d characters %r" % (expr, len(got[0]), got[0]), case3))
            else:
                st["odd_argument_refused"] = st.get("odd_argument_refused", 0) + 1
    return dict(bad=bad, st=st, hashes=[(list(k), h) for k, h in hashes.items()], distinct=len(distinct), samples=samples)


def work_binary(bins, seed, n):
    rng = random.Random(seed)
    bad = []
    k = 0
    for _ in range(n):
        schema, v = gen_obj(rng, True)
        v["dirty"] = False if v.get("dirty") else v.get("dirty")     # dirty would re-stamp bumped_timestamp in the pipeline
        if v.get("epoch") == 0:
            v["epoch"] = None
        if rng.random() < 0.3:
            # a version number the format cannot hold: what --output-format refuses, the template variable must not print either
            fld = rng.choice(["major", "minor", "patch", "epoch", "post", "dev", "pre"])
            big = rng.choice([2 ** 32, 2 ** 32 + 7, 5 * 10 ** 9, 2 ** 63, 2 ** 64 - 1])
            if fld == "pre":
                v["pre_release"] = (rng.choice(["Alpha", "Beta", "Rc"]), big)
            else:
                v[fld] = big
        text = ron.zerv_to_ron(schema, v)
        direct = {}
        ok = True
        for fmt in ("semver", "pep440"):
            r = core.run_zerv(bins, ["version", "--source", "stdin", "--output-format", fmt], stdin=text)
            k += 1
            if r["exit"] != 0:
                ok = False
                # refused by --output-format: `{{ semver }}` / `{{ pep440 }}` "equal what --output-format prints" - there is nothing they could equal
                if fmt == "pep440" and "semver" in direct:
                    # ... while everything that does not mention pep440 is untouched by that refusal
                    for t_, want_ in (("{{ semver }}", direct["semver"]), ("{{ semver_obj.base_part }}", direct["semver"].split("-")[0].split("+")[0])):
                        rs = core.run_zerv(bins, ["version", "--source", "stdin", "--output-template", t_], stdin=text)
                        k += 1
                        if rs["exit"] != 0 or rs["out"].rstrip("\n") != want_:
                            bad.append(("template-semver-differs", "[binary] --output-format semver prints %r but --output-template %r gives %r (exit %s: %s)" % (
                                direct["semver"], t_, rs["out"].rstrip("\n"), rs["exit"], rs["err"].strip()[:100]), dict(kind="bin", ron=text)))
                forms = (("{{ semver }}",) if fmt == "semver" else
                         ("{{ pep440 }}", "{{ pep440_obj.base_part }}", "{% set v = pep440 %}{{ v }}", "{% for p in pep440_obj.base_part | split(pat=\".\") %}[{{ p }}]{% endfor %}",
                          "{% if major %}{{ pep440 }}{% endif %}", "{{ pep440 | upper }}"))
                for var in forms:
                    rt = core.run_zerv(bins, ["version", "--source", "stdin", "--output-template", var], stdin=text)
                    k += 1
                    if rt["exit"] == 0:
                        bad.append(("template-%s-differs" % fmt, "[binary] --output-format %s refuses this object (%s) but the template variable {{ %s }} prints %r" % (
                            fmt, r["err"].strip()[:120], var, rt["out"].rstrip("\n")), dict(kind="bin", ron=text)))
                break
            direct[fmt] = r["out"].rstrip("\n")
        if not ok:
            continue
        names = FIELDS if v.get("pre_release") is not None else NO_PRE
        r = core.run_zerv(bins, ["version", "--source", "stdin", "--output-template", tpl(names)], stdin=text)
        k += 1
        case = dict(kind="bin", ron=text)
        vals = split_fields(r["out"].rstrip("\n"), len(names)) if r["exit"] == 0 else None
        if vals is None:
            bad.append(("template-render-failed", "binary template run failed: exit %s %r" % (r["exit"], r["err"][:200]), case))
            continue
        for sig, why in judge_fields(vals, names, v, direct):
            bad.append((sig, "[binary] " + why, case))
        # the variables on their own, without the delimiters the field template puts around them
        for var, want in (("semver", direct["semver"]), ("pep440", direct["pep440"]), ("v{{ semver }}|{{ pep440 }}", None),
                          ("{% set v = semver %}{% set w = pep440 %}v{{ v }}|{{ w }}", None), ("{% if major is defined %}v{{ semver }}{% endif %}|{% for x in [pep440] %}{{ x }}{% endfor %}", None)):
            t3 = var if ("{{" in var or "{%" in var) else "{{ %s }}" % var
            r3 = core.run_zerv(bins, ["version", "--source", "stdin", "--output-template", t3], stdin=text)
            k += 1
            want3 = want if want is not None else "v%s|%s" % (direct["semver"], direct["pep440"])
            if r3["exit"] != 0 or r3["out"].rstrip("\n") != want3:
                bad.append(("template-%s-differs" % ("semver" if "semver" in var else "pep440"), "[binary] --output-template %r printed %r (exit %s), --output-format prints %r" % (
                    t3, r3["out"].rstrip("\n"), r3["exit"], want3), case))
        br = v.get("bumped_branch")
        if br and br.strip() == br and br.lower() not in ("none", "null", "nil") and "\n" not in br and "\r" not in br:
            r4 = core.run_zerv(bins, ["version", "--source", "stdin", "--output-template", "{{ bumped_branch }}"], stdin=text)
            k += 1
            if r4["exit"] != 0 or r4["out"].rstrip("\n") != br:
                bad.append(("scalar-variable-differs", "[binary] --output-template '{{ bumped_branch }}' printed %r (exit %s), the variable is %r" % (r4["out"].rstrip("\n"), r4["exit"], br), case))
    return dict(n=k, bad=bad)


def run(ctx):
    quick = ctx.tier == "quick"
    per = 600 if quick else 24000
    jobs = [(ctx.bins, "%s/%d/%d" % (ctx.prop, ctx.seed, i), per, TZS[i % len(TZS)]) for i in range(32)]
    merged = {}
    for r in core.pmap(work, jobs):
        ctx.merge_counts(r["st"])
        ctx.evaluations += r["st"]["field_templates"] + r["st"]["function_calls"]
        ctx.distinct_extra += r["distinct"]
        for sig, why, case in r["bad"]:
            ctx.refute(sig, why, case)
        for k, h in r["hashes"]:
            k = tuple(k)
            if k in merged and merged[k] != h:
                ctx.refute("hash-not-a-function", "%r gives %r in one process and %r in another" % (k, merged[k], h), dict(kind="hash", key=list(k)))
            merged[k] = h
        for s in r["samples"][:1]:
            ctx.sample(s, cap=4)
    for r in core.pmap(work_binary, [(ctx.bins, "%s/%d/b%d" % (ctx.prop, ctx.seed, i), 40 if quick else 1500) for i in range(16)]):
        ctx.evaluations += r["n"]
        ctx.count("binary_runs", r["n"])
        for sig, why, case in r["bad"]:
            ctx.refute(sig, why, case)
    ctx.rule = ("%d random objects (random valid schemas or the full standard schema; ASCII-hostile text in 2 of 3, Unicode text in the rest) each rendered through one "
                "template printing %d delimited variables (semver, pep440, the six *_part fields, docker, all scalars, pre_release.*, custom leaves) and one "
                "template with up to 6 calls of hash / hash_int / prefix / prefix_if / sanitize (presets and custom knobs) / format_timestamp with generated "
                "arguments; shards run under TZ in %r; a sample goes through the binary (--output-template vs --output-format). "
                "non-trivial = distinct objects" % (32 * per, len(FIELDS), TZS))
    ctx.assumptions = ["format_timestamp checked for the directives %Y %m %d %H %M %S %y %j %% and the two compact names",
                       "hash()/hash_int() values are learned (must be a function of value and length across processes); only length/alphabet contracts are fixed"]


def replay(ctx, doc):
    c = doc["case"]
    if "ron" not in c:
        print("re-run the check")
        return 0
    pr = core.Probe(ctx.bins, env=core.base_env(ctx.bins, tz=c.get("tz", "UTC")))
    schema, v = ron.decode_zerv(c["ron"])
    d = pr.call(dict(op="zerv_obj", ron=c["ron"]))
    names = FIELDS if v.get("pre_release") is not None else NO_PRE
    r = pr.call(dict(op="template", template=c.get("template") or tpl(names), ron=c["ron"]))
    print("direct: %r / %r\ntemplate -> %r" % (d.get("semver"), d.get("pep440"), r))
    rc = 0
    if "template" not in c and "ok" in r:
        vals = split_fields(r["ok"], len(names))
        res = judge_fields(vals, names, v, d) if vals else [("template-render-failed", "")]
        for x in res:
            print(x)
        rc = 1 if res else 0
    pr.close()
    if rc:
        print("VIOLATION property=C15 replay=%s" % doc.get("_path", "?"))
    return rc
