"""C18 — the Python API is a faithful wrapper of the CLI.

Observation: the real python/zerv package imported from /repo with find_zerv_bin pointing at the
freshly built binary and subprocess.run wrapped to record the argv it is given; return values
and exceptions of zerv.version / flow / check / render.
Oracle: the option tables scraped from `zerv <cmd> --help` of the same binary, and the stdout
of an equivalent command line assembled by the check from the keyword names (not from the
wrapper), run under the same pinned clock."""
import importlib
import inspect
import os
import random
import re
import shutil
import subprocess
import sys

from .. import core, gitmodel, objgen, ron

MINIMUMS = (150, 60)
ALIASES = {"source": "--source", "input_format": "--input-format", "repo_path": "--directory", "verbose": "--verbose", "format": "--format"}
FUNCS = ["version", "flow", "check", "render"]


def scrape(bins, sc):
    """-> (set of accepted tokens, short->long map, takes_value map, possible values map)"""
    r = core.run_zerv(bins, [sc, "--help"])
    if r["exit"] != 0:
        raise core.Inconclusive("cannot read `zerv %s --help`" % sc)
    toks, s2l, takes, values = set(), {}, {}, {}
    cur = None
    for line in r["out"].splitlines():
        m = re.match(r"^\s{2,}(?:-(\w), )?--([a-z0-9-]+)(?:[ =](\[?<[^>]+>\]?(?:\.\.\.)?))?\s*$", line)
        if m:
            long = "--" + m.group(2)
            toks.add(long)
            takes[long] = m.group(3) is not None
            cur = long
            if m.group(1):
                toks.add("-" + m.group(1))
                s2l["-" + m.group(1)] = long
            continue
        m2 = re.search(r"\[possible values: ([^\]]+)\]", line)
        if m2 and cur:
            values[cur] = [x.strip() for x in m2.group(1).split(",")]
    return toks, s2l, takes, values


def expected_flag(kw):
    return ALIASES.get(kw, "--" + kw.replace("_", "-"))


def load_wrapper(bins, record):
    py = os.path.join(core.build.REPO, "python")
    for m in [k for k in sys.modules if k == "zerv" or k.startswith("zerv.")]:
        del sys.modules[m]
    sys.path.insert(0, py)
    try:
        z = importlib.import_module("zerv")
    finally:
        sys.path.remove(py)
    z.find_zerv_bin = lambda: bins["zerv"]
    real_run = subprocess.run

    def spy(cmd, *a, **kw):
        record.append(list(cmd))
        return real_run(cmd, *a, **kw)
    z.subprocess = type("S", (), {"run": staticmethod(spy)})()
    return z


def valid_value(rng, func, kw, ctxd):
    """a value the CLI accepts for this keyword (single use)"""
    ints = {"distance": [0, 1, 5], "bumped_timestamp": [0, 1710511845], "major": [0, 3], "minor": [0, 4], "patch": [0, 9], "epoch": [0, 2], "post": [0, 7],
            "dev": [0, 8], "pre_release_num": [0, 3], "bump_major": [0, 1, 2], "bump_minor": [0, 1], "bump_patch": [0, 3], "bump_post": [0, 1], "bump_dev": [0, 2],
            "bump_pre_release_num": [0, 1], "bump_epoch": [0, 1], "hash_branch_len": [1, 5, 9]}
    strs = {"source": ["none", "stdin"], "input_format": ["auto", "semver", "pep440"], "output_format": ["semver", "pep440", "zerv"],
            "output_template": ["{{ semver }}", "v{{ major }}", "x", "{{ dev }}", "", "{{ epoch }}{{ post }}", "  {{ major }}  ", "a\rb", "{{ major }}\r\n{{ minor }}", "x\r", "é{{ major }}日本", "{{ major }}\n\n{{ minor }}\t."],
            "output_prefix": ["v", "release-", "", "p\rq", "é", "  v", "\tv", "\nrelease-", " ", "v ", "\x0bv", "\u00a0v", "\u2003v"],
            "schema": ["standard", "standard-base", "standard-context"] + ([] if func == "flow" else ["calver", "calver-base-context"]),
            "schema_ron": ["(core:[var(Major), var(Minor)], extra_core:[], build:[])"], "tag_version": ["1.2.3", "v2.0.0-rc.1", "1.0a1"],
            "bumped_branch": ["main", "feature/x", "", "wip/é-日本", "a b"], "bumped_commit_hash": ["gabcdef123", "0000000"],
            "pre_release_label": ["alpha", "beta", "rc"], "custom": ['{"a": 1}'], "core": ["0=5"], "extra_core": ["0=2"], "build": ["0=7"],
            "bump_pre_release_label": ["alpha", "rc"], "bump_core": ["0", "0=2"], "bump_extra_core": ["0"], "bump_build": ["0=1"],
            "post_mode": ["tag", "commit"], "branch_rules": ["[]", '[(pattern: "*", pre_release_label: beta, post_mode: commit)]'],
            "format": ["semver", "pep440"]}
    bools = ["dirty", "no_dirty", "clean", "bump_context", "no_bump_context", "verbose"]
    if kw in bools:
        return rng.choice([True, True, False])
    if kw == "repo_path":
        return ctxd["repo"]
    if kw == "stdin":
        return ctxd["ron"]
    if kw in ints:
        return rng.choice(ints[kw])
    if kw in strs:
        return rng.choice(strs[kw])
    raise core.Inconclusive("no value table for keyword %s.%s (new keyword in the wrapper?)" % (func, kw))


CONFLICTS = [{"schema", "schema_ron"}, {"dirty", "no_dirty"}, {"clean", "distance"}, {"clean", "dirty"}, {"clean", "no_dirty"},
             {"pre_release_label", "bump_pre_release_label"}, {"bump_context", "no_bump_context"}, {"no_bump_context", "dirty"}, {"output_template", "output_format"}]


def assemble(func, pos, kwargs, takes):
    """independent command line from keyword names"""
    argv = [func] + ([pos] if pos is not None else [])
    stdin = None
    for k, v in kwargs.items():
        if k == "stdin":
            stdin = v
            continue
        if v is None or v is False:
            continue
        flag = expected_flag(k)
        if v is True:
            argv.append(flag)
        else:
            argv.append("%s=%s" % (flag, v))
    return argv, stdin


def call(z, func, pos, kwargs):
    f = getattr(z, func)
    try:
        out = f(pos, **kwargs) if pos is not None else f(**kwargs)
        return ("ok", out)
    except TypeError as e:          # an unknown keyword / wrong call shape is not "the command failed"
        return ("other-exception", "%s: %s" % (type(e).__name__, e))
    except Exception as e:          # "raises": the statement does not say which exception
        return ("raised", "%s: %s" % (type(e).__name__, e))


def run(ctx):
    quick = ctx.tier == "quick"
    rng = ctx.sub_rng("c18")
    record = []
    env = core.base_env(ctx.bins, home=ctx.tmp)
    saved = dict(os.environ)
    os.environ.clear()
    os.environ.update(env)
    repo = None
    try:
        try:
            z = load_wrapper(ctx.bins, record)
        except Exception as e:
            ctx.refute("python-package-does-not-import", "import zerv failed: %r" % (e,), dict(kind="import"))
            return
        # a small repository and a stdin object for the keywords that need them
        for repo in gitmodel.build_random(os.path.join(ctx.tmp, "r", "repo"), rng, 6):
            pass
        repo.tag("v3.1.4")
        repo.commit()
        obj = ron.zerv_to_ron(dict(core=[("var", "Major"), ("var", "Minor"), ("var", "Patch")], extra_core=[("var", "Epoch"), ("var", "PreRelease")], build=[("var", "BumpedBranch")]),
                              dict(major=4, minor=5, patch=6, pre_release=("Beta", 2), bumped_branch="dev", custom={}))
        ctxd = dict(repo=repo.path, ron=obj)
        tables = {f: scrape(ctx.bins, f) for f in FUNCS}
        nkw = 0
        for func in FUNCS:
            sig = inspect.signature(getattr(z, func))
            kws = [p.name for p in sig.parameters.values() if p.kind == p.KEYWORD_ONLY]
            pos = "1.2.3-rc.1" if func in ("check", "render") else None
            toks, s2l, takes, values = tables[func]
            ctx.count("keywords_" + func, len(kws))
            for kw in kws:
                nkw += 1
                base = {}
                if func in ("version", "flow"):
                    base = {"source": "none", "tag_version": "1.2.3"}
                    if kw == "stdin":
                        base = {"source": "stdin"}
                    if kw == "repo_path":
                        base = {}
                    if kw in ("core", "bump_core", "extra_core", "bump_extra_core", "build", "bump_build"):
                        base["schema_ron"] = "(core:[uint(1), var(Major)], extra_core:[uint(2)], build:[uint(3)])"
                for trial in range(3 if quick else 16):
                    val = valid_value(rng, func, kw, ctxd)
                    if kw == "source" and val == "stdin":
                        base2 = {"stdin": obj}
                    else:
                        base2 = dict(base)
                    base2.pop(kw, None)
                    for mode, v in (("value", val), ("none", None), ("false", False)):
                        kwargs = dict(base2)
                        kwargs[kw] = v
                        if kw == "stdin" and v is False:
                            continue
                        del record[:]
                        res = call(z, func, pos, kwargs)
                        ctx.evaluations += 1
                        case = dict(kind="single", func=func, keyword=kw, value=repr(v), kwargs={k: repr(x) for k, x in kwargs.items()})
                        ctx.note_distinct((func, kw, repr(v)))
                        if not record:
                            ctx.refute("wrapper-did-not-run-zerv", "%s(%s=%r) did not invoke the binary" % (func, kw, v), case)
                            continue
                        argv = record[0][1:]
                        # tokens contributed by this keyword = argv minus the argv of the same call without it
                        del record[:]
                        kw2 = dict(kwargs)
                        kw2.pop(kw)
                        call(z, func, pos, kw2)
                        base_argv = record[0][1:] if record else []
                        extra = _diff(argv, base_argv)
                        if kw == "stdin":
                            if extra:
                                ctx.refute("stdin-keyword-adds-arguments", "stdin=... added tokens %r" % extra, case)
                            continue
                        if v is None or v is False:
                            if extra:
                                ctx.refute("none-or-false-adds-tokens", "%s(%s=%r) added %r to the command line" % (func, kw, v, extra), case)
                            continue
                        want_flag = expected_flag(kw)
                        if not extra:
                            ctx.refute("keyword-dropped", "%s(%s=%r) added nothing to the command line" % (func, kw, v), case)
                            continue
                        flag = extra[0]
                        joined = False
                        if flag.startswith("--") and "=" in flag and v is not True:
                            # `--flag=value` in one token is the same option for the CLI as `--flag value`
                            flag, joined = flag.split("=", 1)[0], True
                        if flag not in toks:
                            ctx.refute("flag-not-accepted-by-cli", "%s(%s=...) emits %r which `zerv %s --help` does not list" % (func, kw, flag, func), case)
                            continue
                        if s2l.get(flag, flag) != want_flag:
                            ctx.refute("keyword-mapped-to-other-option", "%s(%s=...) emits %r (= %s), expected %s" % (func, kw, flag, s2l.get(flag, flag), want_flag), case)
                        exp_extra = [flag] if v is True else ["%s=%s" % (flag, v)] if joined else [flag, str(v)]
                        if extra != exp_extra:
                            ctx.refute("keyword-tokens-differ", "%s(%s=%r) added %r, expected %r" % (func, kw, v, extra, exp_extra), case)
                        # return value = stripped stdout of the equivalent command line
                        iargv, istdin = assemble(func, pos, kwargs, takes)
                        r = core.run_zerv(ctx.bins, iargv, stdin=istdin, env=env)
                        ctx.evaluations += 1
                        _compare(ctx, res, r, case, iargv)
        ctx.count("keywords_total", nkw)
        # random subsets
        nsub = 350 if quick else 12000
        for i in range(nsub):
            func = rng.choice(["version", "version", "flow", "flow", "render", "check"])
            sig = inspect.signature(getattr(z, func))
            kws = [p.name for p in sig.parameters.values() if p.kind == p.KEYWORD_ONLY and p.name not in ("stdin", "repo_path")]
            pos = rng.choice(["1.2.3-rc.1", "2!1.0.post1", "1.0.0+b", "nonsense"]) if func in ("check", "render") else None
            chosen = set(rng.sample(kws, min(len(kws), rng.choice([1, 2, 3, 4, 6]))))
            for c in CONFLICTS:
                if c <= chosen and rng.random() < 0.9:
                    chosen -= {sorted(c)[0]}
            kwargs = {}
            if func in ("version", "flow"):
                kwargs = {"source": "none", "tag_version": rng.choice(["1.2.3", "0.9.0-rc.2", "1.0a1"])}
            for k in sorted(chosen):
                kwargs[k] = valid_value(rng, func, k, ctxd)
            if kwargs.get("source") == "stdin":
                kwargs["stdin"] = obj
                kwargs.pop("tag_version", None)
            del record[:]
            res = call(z, func, pos, kwargs)
            iargv, istdin = assemble(func, pos, kwargs, tables[func][2])
            r = core.run_zerv(ctx.bins, iargv, stdin=istdin, env=env)
            ctx.evaluations += 2
            ctx.note_distinct((func, pos, tuple(sorted((k, repr(v)) for k, v in kwargs.items()))))
            case = dict(kind="subset", func=func, pos=pos, kwargs={k: repr(x) for k, x in kwargs.items()})
            _compare(ctx, res, r, case, iargv)
            if record:
                bad = [t for t in record[0][2:] if t.startswith("-") and t.split("=")[0] not in tables[func][0] and not _is_value(record[0], t)]
                if bad:
                    ctx.refute("flag-not-accepted-by-cli", "%s(...) emits %r which `zerv %s --help` does not list" % (func, bad, func), case)
            if i < 2:
                ctx.sample(dict(call="%s(%s)" % (func, ", ".join("%s=%r" % kv for kv in kwargs.items())), argv=record[0][1:] if record else None))
        # the same call repeated while the repository changes underneath: the wrapper must follow the command line each time
        for step in range(6 if quick else 60):
            kwargs = rng.choice([{"repo_path": repo.path}, {"repo_path": repo.path, "output_format": "pep440"}, {"repo_path": repo.path, "output_format": "zerv"}])
            fn = rng.choice(["version", "flow"])
            for _ in range(2):
                res = call(z, fn, None, kwargs)
                iargv, istdin = assemble(fn, None, kwargs, {})
                r = core.run_zerv(ctx.bins, iargv, stdin=istdin, env=env)
                ctx.evaluations += 2
                ctx.count("repeated_calls_on_changing_repo")
                _compare(ctx, res, r, dict(kind="changing-repo", func=fn, step=step, ops=list(repo.ops)[-4:]), iargv)
                k = rng.random()
                if k < 0.4:
                    repo.commit()
                elif k < 0.6:
                    repo.tag("v%d.%d.%d" % (10 + step, rng.randrange(9), rng.randrange(9)))
                elif k < 0.8:
                    repo.make_dirty(rng.choice(["modified", "untracked"]))
                else:
                    repo.clean()
        repo.clean()
        # relative repo_path values: resolved once, against the caller's working directory, like `zerv -C`
        top = os.path.dirname(repo.path)
        os.makedirs(os.path.join(repo.path, "pkg", "sub"), exist_ok=True)
        here = os.getcwd()
        try:
            for cwd, rel in ((top, "repo"), (top, "./repo"), (repo.path, "."), (os.path.join(repo.path, "pkg"), ".."), (os.path.join(repo.path, "pkg", "sub"), "../.."),
                             (os.path.dirname(top), os.path.join(os.path.basename(top), "repo"))):
                for fn in ("version", "flow"):
                    os.chdir(cwd)
                    kwargs = {"repo_path": rel}
                    res = call(z, fn, None, kwargs)
                    iargv, istdin = assemble(fn, None, kwargs, {})
                    r = core.run_zerv(ctx.bins, iargv, stdin=istdin, env=env, cwd=cwd)
                    ctx.evaluations += 2
                    ctx.count("relative_repo_path_calls")
                    _compare(ctx, res, r, dict(kind="relative-repo-path", func=fn, cwd=cwd, repo_path=rel), iargv)
        finally:
            os.chdir(here)
        shutil.rmtree(os.path.join(repo.path, "pkg"), ignore_errors=True)
        # repo_path through a symbolic link: `-C cur/../repo` is resolved by the operating system (the link's target's parent), not by deleting `cur/..` as text
        try:
            os.makedirs(os.path.join(top, "rel", "r2"), exist_ok=True)
            if not os.path.exists(os.path.join(top, "cur")):
                os.symlink(os.path.join("rel", "r2"), os.path.join(top, "cur"))
            other = os.path.join(top, "rel", "repo")
            if not os.path.exists(other):
                shutil.copytree(repo.path, other, symlinks=True)
                import subprocess as _sp
                _sp.run([core.REAL_GIT, "-C", other, "tag", "v77.0.0"], env=repo.env, capture_output=True)
            for cwd, rel in ((top, "cur/../repo"), (top, "./cur/../repo/."), (os.path.join(top, "cur"), "../repo"), (top, "rel/../repo")):
                for fn in ("version", "flow"):
                    os.chdir(cwd)
                    kwargs = {"repo_path": rel}
                    res = call(z, fn, None, kwargs)
                    iargv, istdin = assemble(fn, None, kwargs, {})
                    r = core.run_zerv(ctx.bins, iargv, stdin=istdin, env=env, cwd=cwd)
                    ctx.evaluations += 2
                    ctx.count("symlinked_repo_path_calls")
                    _compare(ctx, res, r, dict(kind="symlinked-repo-path", func=fn, cwd=cwd, repo_path=rel), iargv)
        finally:
            os.chdir(here)
        # positional versions are passed as they are: surrounding white space is part of the string the CLI judges
        for pos in ("1.2.3\n", " 1.2.3", "1.2.3 ", "\t1.0.0-rc.1", "v1.2.3\r\n"):
            for fn, kwargs in (("check", {}), ("check", {"format": "semver"}), ("render", {"output_format": "semver"})):
                res = call(z, fn, pos, kwargs)
                iargv, istdin = assemble(fn, pos, kwargs, {})
                r = core.run_zerv(ctx.bins, iargv, stdin=istdin, env=env)
                ctx.evaluations += 2
                ctx.count("positional_whitespace_calls")
                _compare(ctx, res, r, dict(kind="positional", func=fn, pos=pos, kwargs=kwargs), iargv)
        # a git that answers correctly but late: the wrapper has no business giving up on a command that the command line completes
        import threading
        slow_env = core.base_env(ctx.bins, home=top, use_gitshim=True, extra={"ZERV_VERIF_GIT_DELAY_MS": "1300"})
        ref = {}
        th = threading.Thread(target=lambda: ref.update(r=core.run_zerv(ctx.bins, ["version", "-C", repo.path], env=slow_env, timeout=240)))
        th.start()
        saved_env = dict(os.environ)
        os.environ.clear()
        os.environ.update(slow_env)
        try:
            res = call(z, "version", None, {"repo_path": repo.path})
        finally:
            os.environ.clear()
            os.environ.update(saved_env)
        th.join()
        ctx.evaluations += 2
        ctx.count("slow_git_calls")
        if ref.get("r") and not ref["r"]["timeout"]:
            _compare(ctx, res, ref["r"], dict(kind="slow-git", func="version", delay_ms_per_git_call=1300), ["version", "-C", repo.path])
        # the stdin keyword: empty and blank texts are values too (not "no stdin"), and the child must never fall back to the caller's own stdin -
        # during these calls the process's fd 0 is a file holding a valid object of another version, so an inherited stdin shows up as 9.9.9
        sentinel = os.path.join(top, "sentinel.ron")
        with open(sentinel, "w") as f:
            f.write("(schema: (core: [var(Major), var(Minor), var(Patch)], extra_core: [], build: []), vars: (major: Some(9), minor: Some(9), patch: Some(9), custom: {}))")
        for sval in ("", " ", "\n", obj, "garbage (", obj + "\n\n"):
            for fn, kw0 in (("version", {"source": "stdin"}), ("flow", {"source": "stdin"}), ("version", {"source": "stdin", "output_format": "pep440"}), ("version", {})):
                kwargs = dict(kw0, stdin=sval)
                fd = os.open(sentinel, os.O_RDONLY)
                saved0 = os.dup(0)
                os.dup2(fd, 0)
                try:
                    res = call(z, fn, None, kwargs)
                finally:
                    os.dup2(saved0, 0)
                    os.close(saved0)
                    os.close(fd)
                iargv, istdin = assemble(fn, None, kwargs, {})
                r = core.run_zerv(ctx.bins, iargv, stdin=istdin, env=env)
                ctx.evaluations += 2
                ctx.count("stdin_keyword_calls")
                _compare(ctx, res, r, dict(kind="stdin-keyword", func=fn, kwargs={k: repr(x)[:60] for k, x in kwargs.items()}), iargv)
        # a failing command raises - also one that does not exit but dies from a signal (the recorded template-parser stack overflow aborts with SIGABRT)
        for func, pos, kwargs in (("render", "1.2.3", {"output_template": "{{ " + "(" * 30000 + "1" + ")" * 30000 + " }}"}), ("version", None, {"source": "none"}), ("check", "not a version", {"format": "semver"}), ("render", "1.2", {"input_format": "semver"}),
                                  ("flow", None, {"source": "none", "tag_version": "1.2.3", "hash_branch_len": 0}), ("version", None, {"source": "none", "tag_version": "x.y.z"})):
            res = call(z, func, pos, kwargs)
            ctx.evaluations += 1
            ctx.count("failing_commands_tried")
            iargv, istdin = assemble(func, pos, kwargs, {})
            r = core.run_zerv(ctx.bins, iargv, stdin=istdin, env=env)
            _compare(ctx, res, r, dict(kind="failing", func=func, pos=pos, kwargs={k: repr(x) for k, x in kwargs.items()}), iargv)
    finally:
        os.environ.clear()
        os.environ.update(saved)
        if repo is not None:
            shutil.rmtree(os.path.dirname(repo.path), ignore_errors=True)
    ctx.rule = ("every keyword of zerv.version (%d), zerv.flow (%d), zerv.check (%d) and zerv.render (%d) individually with valid values (incl. 0 and the empty string), "
                "with None and with False: tokens added to the recorded argv, membership in the clap option table of the same binary, mapping to the option of the same "
                "name, and return value vs. an independently assembled command line; random keyword subsets; five failing commands. "
                "non-trivial = distinct (function, keywords, values) calls" % tuple(ctx.counters.get("keywords_" + f, 0) for f in FUNCS))
    ctx.assumptions = ["keyword k corresponds to option --k (dashes), except source/-s, input_format/-f, repo_path/-C, verbose/-v, format/--format",
                       "the wrapper is exercised with the interpreter running the check (python 3.11)"]
    ctx.exhaustive = True


def _is_value(argv, tok):
    i = argv.index(tok)
    return i > 0 and argv[i - 1].startswith("-") and not argv[i - 1].startswith(tok)


def _diff(argv, base):
    """tokens of argv that are not accounted for by base (multiset difference, order kept)"""
    b = list(base)
    out = []
    for t in argv:
        if t in b:
            b.remove(t)
        else:
            out.append(t)
    return out


def _compare(ctx, res, r, case, iargv):
    case = dict(case)
    case["independent_argv"] = iargv
    if r["timeout"]:
        return
    if r["exit"] == 0:
        if res[0] != "ok":
            ctx.refute("wrapper-raises-on-success", "the command line %r succeeds (%r) but the wrapper %s: %s" % (iargv, r["out"][:80], res[0], res[1][:160]), case)
        elif res[1] != r["out"].strip():
            ctx.refute("return-value-differs", "wrapper returned %r, the command line %r prints %r" % (res[1][:160], iargv, r["out"].strip()[:160]), case)
    else:
        if res[0] == "ok":
            ctx.refute("failing-command-returns-text", "the command line %r fails (exit %s) but the wrapper returned %r" % (iargv, r["exit"], res[1][:120]), case)
        elif res[0] != "raised":
            ctx.refute("failing-command-wrong-exception", "expected RuntimeError, got %s" % res[1][:160], case)


def replay(ctx, doc):
    print(doc.get("what"))
    print("re-run ./check C18 (the check is exhaustive over keywords)")
    return 0
