"""C14 — output is deterministic and independent of the environment.

Observation: (exit status, stdout) of the real binary for one input vector executed under
many environments: TZ, locale, cwd (absolute and relative -C), HOME, junk variables, repeated
processes, two pinned wall clocks (LD_PRELOAD clock shim, which also logs every clock read).
Oracle: equality across environments; across the two clocks equality unless the state is
dirty / ahead in tag mode or the template names current_timestamp, and then equality after
substituting the pinned value; date-derived output checked against the UTC calendar."""
import os
import random
import shutil

from .. import core, gitmodel, objgen, ron
from ..refs import cal
from ..refs import flow as F
from . import c04, c05, c07

MINIMUMS = (1500, 150)
T1 = core.PINNED_NOW
T2 = core.PINNED_NOW + 37 * 86400 + 4321
TZS = ["UTC", "Pacific/Kiritimati", "Pacific/Pago_Pago", "Asia/Kolkata", "Nowhere/Bogus", ":/nonexistent", "EST5EDT"]
LOCALES = ["C", "C.UTF-8", "POSIX", "de_DE.UTF-8", "tr_TR.UTF-8", ""]
JUNK = [{"ZERV_X": "1", "FOO": "bar"}, {"COLUMNS": "7", "LINES": "1", "TERM": "dumb"}, {"NO_COLOR": "1", "CLICOLOR_FORCE": "1"},
        {"LC_TIME": "ja_JP.UTF-8", "LC_NUMERIC": "de_DE.UTF-8"}, {"RUST_BACKTRACE": "1"}, {"PAGER": "cat", "EDITOR": "vi"}, {"TMPDIR": "/nonexistent"},
        {"USER": "someone", "LOGNAME": "else"}, {"SOURCE_DATE_EPOCH": "1"}, {"ZERV_TEST_NATIVE_GIT": "1"},
        {"RUST_LOG": "trace"}, {"RUST_LOG": "=[{", "ZERV_FORCE_RUST_LOG_OFF": "1"}, {"RUST_LOG": "zerv=debug,warn", "RUST_LOG_STYLE": "always"},      # logging goes to stderr: stdout must not move
        {"CI": "true", "GITHUB_ACTIONS": "true", "GITHUB_HEAD_REF": "feature/ci", "GITHUB_REF_NAME": "release/9", "GITHUB_REF": "refs/heads/release/9", "GITHUB_SHA": "0" * 40},
        {"CI_COMMIT_REF_NAME": "hotfix/1", "CI_COMMIT_BRANCH": "hotfix/1", "CI_COMMIT_SHA": "f" * 40, "CI_COMMIT_TAG": "v9.9.9", "GITLAB_CI": "true"},
        {"BRANCH_NAME": "release/2", "GIT_BRANCH": "origin/develop", "BUILD_NUMBER": "77", "JENKINS_URL": "http://x", "TRAVIS_BRANCH": "dev", "CIRCLE_BRANCH": "dev"},
        {"ZERV_BRANCH": "x", "ZERV_TAG": "v8.8.8", "VERSION": "7.7.7", "SETUPTOOLS_SCM_PRETEND_VERSION": "6.6.6"},
        {"LANGUAGE": "de", "LANG": "C.UTF-8"}, {"LANGUAGE": "fr:es", "LANG": "C.UTF-8"}, {"LANGUAGE": "zh_CN", "LC_MESSAGES": "zh_CN.UTF-8"},
        {"LANGUAGE": "ja", "LANG": "ja_JP.UTF-8", "LC_ALL": ""}]
TS_TEMPLATES = ["{{ format_timestamp(value=bumped_timestamp) }}", "{{ format_timestamp(value=bumped_timestamp, format='compact_datetime') }}",
                "{{ format_timestamp(value=bumped_timestamp, format='%Y/%m/%d %H:%M:%S') }}-{{ semver }}", "{{ bumped_timestamp }}:{{ hash(value=bumped_branch) }}",
                "{{ hash_int(value=bumped_branch, length=9) }}.{{ semver }}"]


def gen_vector(rng):
    """-> dict(argv, stdin, clock_dependent (bool), has_dates (bool), kind)"""
    k = rng.random()
    if k < 0.08:
        # render and check are pure functions of their arguments
        from . import c08, c09
        vs = rng.choice([c08.gen_version(rng), c09.mutate(c09.gen_struct(rng), rng), "1.2.3-rc.1+b.7", "2!1.0.post1.dev3+l.1", "not a version"]).replace("\x00", "")
        if rng.random() < 0.5:
            argv = ["check", "--format", rng.choice(["semver", "pep440"]), "--", vs] if rng.random() < 0.7 else ["check", "--", vs]
        elif rng.random() < 0.7:
            argv = ["render", "--output-format", rng.choice(["semver", "pep440", "zerv"]), "--", vs]
        else:
            argv = ["render", "--output-template", rng.choice(TS_TEMPLATES[3:] + ["{{ semver }}/{{ pep440 }}", "{{ major }}-{{ sanitize(value=semver, preset='pep440') }}"]), "--", vs]
        return dict(argv=argv, stdin=None, clock=False, dates=False, kind="render-check")
    if k < 0.3:
        c = c04.gen_case(rng)
        fmt = rng.choice(["semver", "pep440", "zerv"])
        argv = ["flow"] + c["common"] + c["fopts"] + ["--output-format", fmt]
        return dict(argv=argv, stdin=c["stdin"], clock=True, dates=False, kind="flow")
    if k < 0.55:
        base, stdin = c05.gen_start(rng)
        i = base.index("--output-format")
        fmt = rng.choice(["semver", "pep440", "zerv"])
        base = base[:i] + ["--output-format", fmt] + base[i + 2:]
        fs = c05.gen_flagset(rng, dict(core=[("var", "Major"), ("var", "Minor"), ("var", "Patch")], extra_core=[("var", "Epoch"), ("var", "PreRelease")], build=[]))
        argv = base + [t for g in fs.groups for t in g]
        dirty = "--dirty" in argv or (stdin is not None and "dirty: Some(true)" in stdin)
        return dict(argv=argv, stdin=stdin, clock=dirty, dates="ts(" in " ".join(argv) or "calver" in " ".join(argv) or (stdin is not None and "ts(" in stdin), kind="version")
    if k < 0.75:
        t = rng.randrange(0, 7258118400)
        preset = rng.choice(["calver", "calver-context", "calver-base-prerelease-post-dev", "calver-no-context"])
        argv = ["version", "--source", "none", "--tag-version", "1.0.%d" % rng.randrange(50), "--bumped-timestamp", str(t), "--schema", preset,
                "--output-format", rng.choice(["semver", "pep440"])]
        if rng.random() < 0.4:
            argv += ["--bumped-branch", "feature/x", "--distance", "3"]
        return dict(argv=argv, stdin=None, clock=False, dates=True, kind="calver", t=t)
    if k < 0.9:
        t = rng.randrange(0, 7258118400)
        tpl = rng.choice(TS_TEMPLATES)
        argv = ["version", "--source", "none", "--tag-version", "2.1.0", "--bumped-timestamp", str(t), "--bumped-branch", rng.choice(["main", "feature/x", "é/日本"]),
                "--output-template", tpl]
        return dict(argv=argv, stdin=None, clock=False, dates=True, kind="tstemplate", t=t, tpl=tpl)
    argv = ["version", "--source", "none", "--tag-version", "3.0.0", "--output-template", "{{ current_timestamp }}|{{ semver }}"]
    return dict(argv=argv, stdin=None, clock=True, dates=False, kind="current_timestamp")


def variants(rng, n):
    out = [dict(tz="UTC", lang="C.UTF-8", cwd="/", extra={}, label="baseline")]
    for _ in range(n):
        out.append(dict(tz=rng.choice(TZS), lang=rng.choice(LOCALES), cwd=rng.choice(["/", "/tmp", "/usr/share/zoneinfo"]), extra=dict(rng.choice(JUNK)),
                        label="variant"))
    out.append(dict(tz="UTC", lang="C.UTF-8", cwd="/", extra={}, label="repeat"))
    return out


def env_for(bins, var, now, home=None, clocklog=None):
    extra = {"LANG": var["lang"], "LC_ALL": var["lang"]} if var["lang"] else {"LANG": None, "LC_ALL": None}
    extra.update(var["extra"])
    return core.base_env(bins, home=home, now=now, tz=var["tz"], clocklog=clocklog, extra=extra)


def subst(s, t):
    return s.replace(str(t), "<NOW>")


def work_vectors(bins, seed, n, tmp):
    rng = random.Random(seed)
    bad = []
    st = {"vectors": 0, "runs": 0, "variants_compared": 0, "clock_pairs": 0, "clock_dependent_outputs": 0, "clock_reads_in_clean_runs": 0, "utc_date_checks": 0,
          "failing_vectors": 0}
    distinct = set()
    samples = []
    clk = os.path.join(tmp, "clk-%d.log" % os.getpid())
    for _ in range(n):
        v = gen_vector(rng)
        argv = [a for a in v["argv"] if "\x00" not in a]
        vs = variants(rng, 6)
        base = None
        st["vectors"] += 1
        distinct.add(hash((tuple(argv), v["stdin"])))
        for var in vs:
            if os.path.exists(clk):
                os.remove(clk)
            r = core.run_zerv(bins, argv, stdin=v["stdin"], env=env_for(bins, var, T1, clocklog=clk if var["label"] == "baseline" else None), cwd=var["cwd"])
            st["runs"] += 1
            if r["timeout"]:
                continue
            if base is None:
                base = r
                if r["exit"] != 0:
                    st["failing_vectors"] += 1
                reads = sum(1 for _ in open(clk)) if os.path.exists(clk) else 0
                if not v["clock"] and reads:
                    st["clock_reads_in_clean_runs"] += 1
                continue
            st["variants_compared"] += 1
            if (r["exit"], r["out"]) != (base["exit"], base["out"]):
                bad.append(("environment-changes-output", "%s: TZ=%s LANG=%r cwd=%s extra=%r changed (exit, stdout) from (%s, %r) to (%s, %r)" % (
                    v["kind"], var["tz"], var["lang"], var["cwd"], var["extra"], base["exit"], base["out"][:160], r["exit"], r["out"][:160]),
                    dict(kind="vector", argv=argv, stdin=v["stdin"], variant=var)))
                break
        if base is None:
            continue
        # second clock
        r2 = core.run_zerv(bins, argv, stdin=v["stdin"], env=env_for(bins, vs[0], T2), cwd="/")
        st["runs"] += 1
        st["clock_pairs"] += 1
        case = dict(kind="clock", argv=argv, stdin=v["stdin"])
        if not r2["timeout"]:
            if r2["exit"] != base["exit"]:
                bad.append(("clock-changes-exit-status", "exit %s at clock %d, %s at clock %d" % (base["exit"], T1, r2["exit"], T2), case))
            elif base["exit"] == 0:
                if base["out"] != r2["out"]:
                    st["clock_dependent_outputs"] += 1
                    if not v["clock"]:
                        bad.append(("wall-clock-leaks-into-output", "state is neither dirty nor ahead and no template names current_timestamp, yet output differs between two "
                                    "wall clocks: %r vs %r" % (base["out"][:160], r2["out"][:160]), case))
                    elif not v["dates"] and subst(base["out"], T1) != subst(r2["out"], T2):
                        bad.append(("clock-dependence-beyond-dev-timestamp", "outputs differ in more than the pinned timestamp: %r vs %r" % (base["out"][:200], r2["out"][:200]), case))
        # absolute UTC check of date-derived output
        if base["exit"] == 0 and v["kind"] == "calver":
            f = cal.fields(v["t"])
            st["utc_date_checks"] += 1
            if not base["out"].startswith("%d.%d.%d" % (f["y"], f["m"], f["d"])):
                bad.append(("date-not-utc", "calver output %r for t=%d, UTC date %d-%d-%d" % (base["out"].strip(), v["t"], f["y"], f["m"], f["d"]), case))
        if base["exit"] == 0 and v["kind"] == "tstemplate" and "format_timestamp" in v["tpl"]:
            st["utc_date_checks"] += 1
            want = {TS_TEMPLATES[0]: cal.strftime_utc("%Y-%m-%d", v["t"]), TS_TEMPLATES[1]: cal.resolve("compact_datetime", v["t"])}.get(v["tpl"])
            if want is not None and base["out"].strip() != want:
                bad.append(("date-not-utc", "%s printed %r, UTC gives %r" % (v["tpl"], base["out"].strip(), want), case))
        if len(samples) < 2:
            samples.append(dict(argv=argv, variants=[dict(tz=x["tz"], lang=x["lang"], cwd=x["cwd"], extra=x["extra"]) for x in vs[1:4]], output=base["out"][:100]))
    if os.path.exists(clk):
        os.remove(clk)
    return dict(bad=bad, st=st, distinct=len(distinct), samples=samples)


GITCONFIG_PREFS = [("column", "ui", "always"), ("status", "showUntrackedFiles", "no"), ("color", "ui", "always"), ("log", "decorate", "full"), ("log", "date", "iso"),
                   ("format", "pretty", "fuller"), ("tag", "sort", "-version:refname"), ("status", "short", "true"), ("status", "branch", "true"),
                   ("core", "quotePath", "false"), ("core", "pager", "cat"), ("init", "defaultBranch", "trunk"), ("user", "name", "Some Body"),
                   ("log", "abbrevCommit", "true"), ("core", "abbrev", "12"), ("status", "relativePaths", "false"), ("versionsort", "suffix", "-rc"),
                   ("status", "showStash", "true"), ("branch", "sort", "-committerdate"), ("log", "follow", "true"), ("diff", "renames", "copies")]


def work_repo(bins, seed, idx, tmp):
    """git source: cwd / -C (absolute, relative), HOME, TZ, locale, repeats"""
    rng = random.Random("%s/%d" % (seed, idx))
    top = os.path.join(tmp, "g%d" % idx)
    ws = os.path.join(top, "ws")
    path = os.path.join(ws, "proj")
    os.makedirs(ws, exist_ok=True)
    bad = []
    st = {"repo_runs": 0, "repo_variants_compared": 0, "relative_C_runs": 0}
    try:
        repo = None
        for repo in gitmodel.build_random(path, rng, rng.choice([6, 10, 16])):
            pass
        if not any(gitmodel.valid_in(t["name"], "auto") and t["cid"] in repo.anc(repo.head_cid()) for t in repo.tags):
            repo.tag("v%d.%d.%d" % (rng.randrange(9), rng.randrange(9), rng.randrange(9)))
        if rng.random() < 0.5:
            # equal-precedence tags that render differently on one commit: the choice among them must not vary between processes
            x, y = rng.randrange(20, 40), rng.randrange(9)
            for name in ("v%d.%d" % (x, y), "%d.%d.0" % (x, y), "%d.%d.0.0" % (x, y), "V%d.%d.0" % (x, y)):
                repo.tag(name, annotated=rng.random() < 0.3)
            if rng.random() < 0.6:
                repo.commit()
        if rng.random() < 0.35:
            repo.detach(repo.head_cid())        # CI-style detached checkout
        kind = rng.choice(["clean", "modified", "untracked", "clean", "unmerged"])
        repo.make_dirty(kind)
        os.makedirs(os.path.join(top, "otherhome"), exist_ok=True)
        # a user-level git configuration made of presentation / convenience preferences: not repository state, not an argument
        gitconfig = os.path.join(top, "otherhome", ".gitconfig")
        prefs = [p for p in GITCONFIG_PREFS if rng.random() < 0.5] or [GITCONFIG_PREFS[0]]
        if idx % 2 == 0 and GITCONFIG_PREFS[0] not in prefs:
            prefs.append(GITCONFIG_PREFS[0])
        if idx % 3 == 0 and GITCONFIG_PREFS[1] not in prefs:
            prefs.append(GITCONFIG_PREFS[1])
        with open(gitconfig, "w") as f:
            for sec, key, val in prefs:
                f.write("[%s]\n\t%s = %s\n" % (sec, key, val))
        st["gitconfig_prefs_used"] = len(prefs)
        os.makedirs(os.path.join(path, "sub", "dir"), exist_ok=True) if kind != "clean" else None
        for cmd in (["version"], ["flow"], ["version", "--output-format", "zerv"], ["flow", "--output-format", "pep440"],
                    ["version", "--input-format", "pep440", "--output-format", "pep440"], ["version", "--input-format", "pep440", "--output-format", "zerv"],
                    ["version", "--schema", "calver", "--output-template", "{{ semver }}|{{ format_timestamp(value=bumped_timestamp) }}|{{ hash_int(value=bumped_branch, length=6) }}"]):
            runs = [
                ("abs-C from /", cmd + ["-C", path], "/", {}),
                ("abs-C from repo", cmd + ["-C", path], path, {}),
                ("relative -C proj from ws", cmd + ["-C", "proj"], ws, {}),
                ("relative -C ws/proj from top", cmd + ["-C", "ws/proj"], top, {}),
                ("-C . inside repo", cmd + ["-C", "."], path, {}),
                ("-C ../proj from repo", cmd + ["-C", "../proj"], path, {}),
                ("other HOME", cmd + ["-C", path], "/", {"HOME": os.path.join(top, "otherhome")}),
                ("user gitconfig", cmd + ["-C", path], "/", {"HOME": os.path.join(top, "otherhome"), "GIT_CONFIG_GLOBAL": gitconfig}),
                ("TZ+locale", cmd + ["-C", path], "/tmp", {"TZ": rng.choice(TZS[1:]), "LANG": rng.choice(LOCALES[2:5]), "LC_ALL": "tr_TR.UTF-8"}),
                ("junk env", cmd + ["-C", path], "/", dict(rng.choice(JUNK))),
                ("ci env", cmd + ["-C", path], "/", dict(rng.choice(JUNK[-8:-4]))),
                ("message language", cmd + ["-C", path], "/", dict(rng.choice(JUNK[-4:]))),
                ("repeat", cmd + ["-C", path], "/", {}),
                ("repeat 2", cmd + ["-C", path], "/", {}),
                ("repeat 3", cmd + ["-C", path], "/", {}),
                ("repeat 4", cmd + ["-C", path], "/", {}),
            ]
            base = None
            for label, argv, cwd, extra in runs:
                env = core.base_env(bins, home=top, extra=extra)
                r = core.run_zerv(bins, argv, env=env, cwd=cwd)
                st["repo_runs"] += 1
                if "relative" in label or "-C ." in label or "../" in label:
                    st["relative_C_runs"] += 1
                if r["timeout"]:
                    continue
                if base is None:
                    base = (label, r)
                    if kind == "clean" and cmd == ["version", "--output-format", "zerv"] and r["exit"] == 0:
                        # date-derived components are computed in UTC: the instant zerv works from is the commit's Unix time, whatever UTC offset
                        # the commit was recorded under (the generator stamps commits with offsets from -11:00 to +14:00)
                        try:
                            got = ron.decode_zerv(r["out"])[1].get("bumped_timestamp")
                        except Exception:
                            got = "unparsable"
                        want = repo.commits[repo.head_cid()]["ctime"]
                        st["commit_instants_compared"] = st.get("commit_instants_compared", 0) + 1
                        if got != want:
                            bad.append(("commit-time-not-utc-instant", "clean checkout: bumped_timestamp %r but HEAD's committer time is %r (recorded with a non-UTC offset?)" % (got, want),
                                        dict(kind="repo", seed=seed, idx=idx, cmd=cmd, label=label, ops=list(repo.ops))))
                    continue
                st["repo_variants_compared"] += 1
                if "LANGUAGE" in extra and base[1]["exit"] != 0 and r["exit"] == base[1]["exit"] and not r["out"] and not base[1]["out"]:
                    continue      # failures may word their diagnostics differently; only (exit, stdout) is compared
                if (r["exit"], r["out"]) != (base[1]["exit"], base[1]["out"]):
                    bad.append(("environment-changes-output", "git source, `%s`: [%s] gives (%s, %r %s) but [%s] gives (%s, %r)" % (
                        " ".join(cmd), label, r["exit"], r["out"][:140], r["err"][:100], base[0], base[1]["exit"], base[1]["out"][:140]),
                        dict(kind="repo", seed=seed, idx=idx, cmd=cmd, label=label, ops=list(repo.ops))))
        if kind == "clean":
            for cmd in (["version", "--output-format", "zerv"], ["version", "--schema", "calver"], ["version", "--output-template", "{{ bumped_timestamp }}/{{ last_timestamp }}/{{ semver }}"]):
                outs = []
                for now in (T1, T2, 1_300_000_000, 4_000_000_000):
                    r = core.run_zerv(bins, cmd + ["-C", path], env=core.base_env(bins, home=top, now=now))
                    st["repo_runs"] += 1
                    st["repo_clock_variants"] = st.get("repo_clock_variants", 0) + 1
                    if not r["timeout"]:
                        outs.append((now, r["exit"], r["out"]))
                if len(set((e, o) for _, e, o in outs)) > 1:
                    bad.append(("wall-clock-leaks-into-output", "clean checkout, `%s`: output depends on the wall clock: %r" % (" ".join(cmd), [(n, o[:80]) for n, _, o in outs][:3]),
                                dict(kind="repo", seed=seed, idx=idx, cmd=cmd, label="clock", ops=list(repo.ops))))
    except gitmodel.GitError as e:
        raise core.Inconclusive("repo generator: %s" % e)
    finally:
        shutil.rmtree(top, ignore_errors=True)
    return dict(bad=bad, st=st)


def run(ctx):
    quick = ctx.tier == "quick"
    per = 36 if quick else 1200
    for r in core.pmap(work_vectors, [(ctx.bins, "%s/%d/v%d" % (ctx.prop, ctx.seed, i), per, ctx.tmp) for i in range(32)]):
        ctx.merge_counts(r["st"])
        ctx.evaluations += r["st"]["runs"]
        ctx.distinct_extra += r["distinct"]
        for sig, why, case in r["bad"]:
            ctx.refute(sig, why, case)
        for s in r["samples"][:1]:
            ctx.sample(s, cap=3)
    nrep = 32 if quick else 900
    for r in core.pmap(work_repo, [(ctx.bins, "%s/%d" % (ctx.prop, ctx.seed), i, ctx.tmp) for i in range(nrep)]):
        ctx.merge_counts(r["st"])
        ctx.evaluations += r["st"]["repo_runs"]
        ctx.distinct_extra += r["st"]["repo_variants_compared"]
        for sig, why, case in r["bad"]:
            ctx.refute(sig, why, case)
    ctx.rule = ("%d input vectors (flow and version command lines from the C04/C05 generators incl. dirty states, calver presets and ts components with random commit "
                "times, templates with format_timestamp / hash / hash_int / current_timestamp) each run as 8 separate processes under random TZ in %r, locale in %r, "
                "cwd, junk variables, plus a second pinned wall clock with the shim's read log; %d random git repositories x 7 commands x 14 (cwd, -C absolute / "
                "relative, HOME, TZ, locale, repeat) variants. non-trivial = distinct vectors and repository variants compared" % (32 * per, TZS, LOCALES, nrep))
    ctx.assumptions = ["GIT_* variables are inputs to git and are not varied", "when dirty state meets date-derived components the two-clock comparison is skipped (counted)"]


def replay(ctx, doc):
    c = doc["case"]
    if c["kind"] in ("vector", "clock"):
        a = core.run_zerv(ctx.bins, c["argv"], stdin=c.get("stdin"), env=core.base_env(ctx.bins, now=T1))
        var = c.get("variant")
        b = core.run_zerv(ctx.bins, c["argv"], stdin=c.get("stdin"), env=env_for(ctx.bins, var, T1) if var else core.base_env(ctx.bins, now=T2), cwd=(var or {}).get("cwd", "/"))
        print("baseline: %s %r\nvariant:  %s %r" % (a["exit"], a["out"][:300], b["exit"], b["out"][:300]))
        return 0
    r = work_repo(ctx.bins, c["seed"], c["idx"], ctx.tmp)
    for b in r["bad"][:8]:
        print(b[0], b[1])
    if r["bad"]:
        print("VIOLATION property=C14 replay=%s" % doc.get("_path", "?"))
        return 1
    return 0
