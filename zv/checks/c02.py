"""C02 — git state extraction is faithful to the repository history.

Observation: probe `vcs_data` (GitVcs::get_vcs_data through the Vcs trait) and the real
binary `zerv version -C <repo> --input-format F --output-format zerv`, after every step of
random histories built with native git.  Oracle: the shadow commit-DAG model in
zv.gitmodel (fed by the generator's own operations) + zv.refs orderings."""
import json
import os
import random

from .. import core, gitmodel, ron

MINIMUMS = (200, 60)
FORMATS = ["auto", "semver", "pep440"]
NOW = core.PINNED_NOW


def expect(repo, fmt, dirt):
    h = repo.head_cid()
    anc = repo.anc(h)
    vset = [c for c in anc if any(gitmodel.valid_in(t, fmt) for t in repo.tags_at(c))]
    nearest = [c for c in vset if not any(c2 != c and c in repo.anc(c2) for c2 in vset)]
    return dict(head=h, anc=anc, vset=vset, nearest=nearest)


class _WithoutNested:
    """the same repository as zerv sees it if annotated tags of tags did not exist"""
    def __init__(self, repo):
        self._r = repo
        self.tags = [t for t in repo.tags if not t.get("nested")]

    def tags_at(self, cid):
        return [t["name"] for t in self.tags if t["cid"] == cid]

    def __getattr__(self, k):
        return getattr(self._r, k)


def judge(repo, fmt, dirty_expected, obs, via):
    out = _judge(repo, fmt, dirty_expected, obs, via)
    if len(out) == 1 and out[0][0] == "distance-differs" and obs.get("tag"):
        # recorded finding: zerv takes the distance from `git rev-list --count <tag>..HEAD`, and git's revision walk is a date-ordered heuristic that
        # over-counts when committer dates run backwards along the history (an ancestor of the tag stamped later than its descendants is not
        # recognised as uninteresting in time). Attributed to it only when native git itself gives exactly the number zerv reported.
        try:
            g = repo.git("rev-list", "--count", "%s..HEAD" % obs["tag"])
        except Exception:
            g = None
        if g is not None and g.strip() == str(obs.get("distance")):
            return [("distance-follows-git-revlist-under-clock-skew", "%s; `git rev-list --count %s..HEAD` itself answers %s in this history of out-of-order committer dates" % (
                out[0][1], obs["tag"], g.strip()))]
    if out and not out[0][0].startswith("panic") and any(t.get("nested") for t in repo.tags):
        # recorded finding: a version tag that is an annotated tag of a tag is not seen. Attributed to it only when zerv's whole answer is
        # exactly what the model says for the repository without those tags
        if not _judge(_WithoutNested(repo), fmt, dirty_expected, obs, via):
            nested = sorted(t["name"] for t in repo.tags if t.get("nested"))
            return [("nested-annotated-tag-not-seen", "zerv answers as if the nested annotated tag(s) %r did not exist (first difference: %s)" % (nested, out[0][1][:160]))]
    return out


def _judge(repo, fmt, dirty_expected, obs, via):
    """obs: normalised observation dict or {'err': ...}. Returns list of (sig, why)."""
    e = expect(repo, fmt, dirty_expected)
    head = repo.commits[e["head"]]
    out = []
    if "panic" in obs:
        return [("panic@" + str(obs.get("at", "?")).rsplit(":", 1)[0], "panic: %s" % obs["panic"])]
    if not e["vset"]:
        if obs.get("tag") is not None or (via == "binary" and obs.get("ok")):
            out.append(("version-from-no-valid-tag", "no valid %s tag is reachable from HEAD but zerv reported %r" % (fmt, obs.get("tag"))))
        elif via == "binary" and not obs.get("err"):
            out.append(("no-tag-not-reported-as-such", "expected a failure with a diagnostic, got %r" % (obs,)))
    else:
        if obs.get("err") is not None or obs.get("tag") is None:
            out.append(("valid-tag-not-found", "valid %s tags are reachable (%s) but zerv reported none / failed: %r" % (
                fmt, sorted(sum((repo.tags_at(c) for c in e["vset"]), [])), obs.get("err"))))
            return out
        tag = obs["tag"]
        owners = [t for t in repo.tags if t["name"] == tag]
        if not owners:
            out.append(("unknown-tag", "reported tag %r does not exist" % tag))
            return out
        tc = owners[0]["cid"]
        if tc not in e["anc"]:
            out.append(("unreachable-tag-counted", "tag %r sits on c%d which is not reachable from HEAD c%d" % (tag, tc, e["head"])))
        elif not gitmodel.valid_in(tag, fmt):
            out.append(("invalid-tag-chosen", "tag %r is not valid in format %s" % (tag, fmt)))
        elif tc not in e["nearest"]:
            between = [c for c in e["vset"] if c != tc and tc in repo.anc(c)]
            out.append(("not-nearest-tag", "tag %r on c%d chosen although validly tagged commit(s) %s lie between it and HEAD" % (
                tag, tc, ["c%d %r" % (c, repo.tags_at(c)) for c in between])))
        else:
            adm = gitmodel.admissible_max(repo.tags_at(tc), fmt)
            if tag not in adm:
                out.append(("not-highest-tag-on-commit", "commit c%d carries %r; %r chosen, highest is %r" % (tc, repo.tags_at(tc), tag, sorted(adm))))
        tcommit = repo.commits[tc]
        dist = len(e["anc"] - repo.anc(tc))
        if obs.get("distance") != dist:
            out.append(("distance-differs", "distance %r reported, %d commits are reachable from HEAD but not from %r" % (obs.get("distance"), dist, tag)))
        if obs.get("tag_commit") != tcommit["sha"]:
            out.append(("tag-commit-hash-differs", "tag commit %r reported, is %s" % (obs.get("tag_commit"), tcommit["sha"])))
        if obs.get("tag_time") != tcommit["ctime"]:
            out.append(("tag-commit-time-differs", "tag time %r reported, committer time of the tagged commit is %d (author %d, tagger %r)" % (
                obs.get("tag_time"), tcommit["ctime"], tcommit["atime"], owners[0]["ttime"])))
    if obs.get("err") is None:
        if obs.get("dirty") != dirty_expected:
            out.append(("dirty-differs", "dirty=%r reported, work tree dirt expected %r" % (obs.get("dirty"), dirty_expected)))
        want_branch = repo.head[1] if repo.head[0] == "branch" else None
        if obs.get("branch") != want_branch:
            out.append(("branch-differs", "branch %r reported, is %r" % (obs.get("branch"), want_branch)))
        if obs.get("head") != head["sha"]:
            out.append(("head-hash-differs", "HEAD %r reported, is %s" % (obs.get("head"), head["sha"])))
        want_time = head["ctime"]
        if via == "binary" and dirty_expected:
            want_time = NOW
        if obs.get("head_time") != want_time:
            out.append(("head-time-differs", "HEAD time %r reported, expected %d (committer %d / author %d)" % (obs.get("head_time"), want_time, head["ctime"], head["atime"])))
    return out


def observe_probe(pr, repo, fmt):
    rep = pr.call(dict(op="vcs_data", dir=repo.path, fmt=fmt))
    if "panic" in rep:
        return rep
    if "err" in rep:
        return dict(err=rep["err"], tag=None)
    return dict(err=None, tag=rep["tag_version"], tag_commit=rep["tag_commit_hash"], tag_time=rep["tag_timestamp"], head=rep["commit_hash"],
                prefix=rep["commit_hash_prefix"], head_time=rep["commit_timestamp"], branch=rep["current_branch"], dirty=rep["is_dirty"],
                distance=rep["distance"] if rep["tag_version"] is not None else None)


def _strip_g(h):
    # the rendered object writes hashes git-describe style with a `g` in front; the statement is about the hash, so both spellings are read
    return h[1:] if isinstance(h, str) and h.startswith("g") else h


def observe_binary(bins, repo, fmt, gitlog=None, cwd=None, cdir=None, how=0):
    """how: 0 = `-C <repo>` from /, 1 = `-C .` from inside the repository, 2 = no -C at all from inside the repository, 3 = `--directory=<repo>/`,
    4 = no -C, started in an (empty, hence invisible to git) directory one to three levels below the work-tree root: zerv has to walk up"""
    env = core.base_env(bins, home=os.path.dirname(repo.path), gitlog=gitlog, use_gitshim=gitlog is not None)
    where = [["-C", cdir or repo.path], ["-C", "."], [], ["--directory=%s/" % repo.path], []][how]
    if how in (1, 2):
        cwd = repo.path
    sub = None
    if how == 4:
        sub = os.path.join(repo.path, "zv-sub")
        cwd = os.path.join(sub, *["d%d" % i for i in range(len(repo.commits) % 3)])
        os.makedirs(cwd, exist_ok=True)
    try:
        return _observe_binary(bins, env, where, fmt, cwd)
    finally:
        if sub:
            import shutil
            shutil.rmtree(sub, ignore_errors=True)


def _observe_binary(bins, env, where, fmt, cwd):
    argv = ["version"] + where + ["--input-format", fmt, "--output-format", "zerv"]
    r = core.run_zerv(bins, argv, env=env, cwd=cwd or "/")
    if r["timeout"]:
        # loaded machine: one generous retry; a second timeout is an inconclusive *event*, never a verdict
        r = core.run_zerv(bins, argv, env=env, cwd=cwd or "/", timeout=180)
        if r["timeout"]:
            return dict(timeout=True)
    if r["exit"] != 0:
        if "panicked" in r["err"]:
            return dict(panic=r["err"][:300], at="binary")
        low = r["err"].lower()
        return dict(err=r["err"].strip(), tag=None, stdout=r["out"], no_tags_error=("no version tag" in low or "no tags" in low or "no tag" in low))
    try:
        _, v = ron.decode_zerv(r["out"])
    except ron.RonError as e:
        return dict(err="unparsable output: %s" % e, tag=None)
    return dict(ok=True, err=None, tag=v["last_tag_version"], tag_commit=_strip_g(v["last_commit_hash"]), tag_time=v["last_timestamp"],
                head=_strip_g(v["bumped_commit_hash"]), head_time=v["bumped_timestamp"], branch=v["bumped_branch"], dirty=v["dirty"],
                distance=v["distance"], vars=v)


def work_history(bins, seed, idx, nops, nobs_cap, tmp):
    rng = random.Random("%s/%d" % (seed, idx))
    path = os.path.join(tmp, "r%d" % idx, "repo")
    os.makedirs(os.path.dirname(path), exist_ok=True)
    pr = core.worker_probe(bins, key="git", env=core.base_env(bins, home=os.path.dirname(path)))
    bad = []
    stats = {}
    nobs = 0
    shapes = set()
    repo = None
    gitcmds = set()

    def st(k, n=1):
        stats[k] = stats.get(k, 0) + n
    try:
        for repo in gitmodel.build_random(path, rng, nops):
            if nobs >= nobs_cap:
                continue
            if rng.random() < 0.45 and len(repo.commits) > 1:
                continue          # not every step is observed
            fmt = rng.choice(FORMATS)
            kind = rng.choice(gitmodel.DIRT_KINDS) if rng.random() < 0.6 else "clean"
            try:
                dirty = repo.make_dirty(kind)
            except gitmodel.GitError as e:
                raise core.Inconclusive("generator dirt: %s" % e)
            e = expect(repo, fmt, dirty)
            obs_p = observe_probe(pr, repo, fmt)
            gitlog = os.path.join(os.path.dirname(path), "git.log") if rng.random() < 0.1 else None
            how = rng.choice([0, 0, 1, 2, 3, 4])
            obs_b = observe_binary(bins, repo, fmt, gitlog=gitlog, how=how)
            st("pointed_at_repo:" + ["-C abs", "-C .", "cwd=root", "--directory=abs/", "cwd=subdirectory (walk up)"][how])
            if gitlog and os.path.exists(gitlog):
                for line in open(gitlog):
                    try:
                        a = json.loads(line)["argv"]
                        gitcmds.add(" ".join(a[:2]))
                    except Exception:
                        pass
                os.remove(gitlog)
            nobs += 1
            st("observations")
            st("fmt:" + fmt)
            st("dirt:" + kind)
            st("head:" + repo.head[0])
            st("vset_size:%s" % (len(e["vset"]) if len(e["vset"]) < 4 else "4+"))
            if not e["vset"]:
                st("no_valid_tag_states")
            else:
                tc = e["nearest"][0]
                st("distance:%s" % (min(len(e["anc"] - repo.anc(tc)), 10)))
                if len(repo.tags_at(tc)) > 1:
                    st("multi_tag_commit")
                if any(len(c["parents"]) > 1 for c in repo.commits if c["id"] in e["anc"]):
                    st("merge_in_history")
                if any(len(c["parents"]) > 2 for c in repo.commits if c["id"] in e["anc"]):
                    st("octopus_merge_in_history")
                if sum(1 for c in repo.commits if c["id"] in e["anc"] and not c["parents"]) > 1:
                    st("several_roots_in_history")
                if len(e["nearest"]) > 1:
                    st("several_nearest_candidates")
                if any(t["cid"] not in e["anc"] and gitmodel.valid_in(t["name"], fmt) for t in repo.tags):
                    st("unreachable_valid_tag_present")
                if any(t["annotated"] for t in repo.tags if t["cid"] == tc):
                    st("annotated_on_chosen_commit")
            shape = (tuple(tuple(c["parents"]) for c in repo.commits), repo.head_cid(), kind, tuple(sorted((t["name"], t["cid"]) for t in repo.tags)))
            shapes.add(hash(shape))
            for via, obs in (("probe", obs_p), ("binary", obs_b)):
                if obs.get("timeout"):
                    st("inconclusive_timeouts")
                    continue
                for sig, why in judge(repo, fmt, dirty, obs, via):
                    if len(bad) < 12:
                        bad.append((sig, "[%s, -f %s, dirt=%s] %s" % (via, fmt, kind, why),
                                    dict(seed=seed, idx=idx, nops=nops, ops=list(repo.ops), fmt=fmt, dirt=kind, via=via)))
            repo.clean()
        # a linked worktree (its .git is a *file*) checked out at an arbitrary commit is a checkout like any other
        if repo is not None and rng.random() < 0.35 and nobs > 0:
            import subprocess as _sp
            cid = rng.choice(repo.commits)["id"]
            wt = os.path.join(os.path.dirname(path), "linked")
            # half of them on a branch of their own (`worktree add -b`): HEAD then lives in .git/worktrees/<name>/HEAD, not in <worktree>/.git/HEAD
            wt_branch = "wt-line" if (rng.random() < 0.5 and "wt-line" not in repo.branches) else None
            how_ = ["-b", wt_branch] if wt_branch else ["--detach"]
            rr = _sp.run([core.REAL_GIT, "-C", repo.path, "worktree", "add", "-q"] + how_ + [wt, repo.commits[cid]["sha"]], env=repo.env, capture_output=True)
            if rr.returncode == 0:
                saved = (repo.head, repo.path)
                if wt_branch:
                    repo.branches[wt_branch] = cid
                    repo.head, repo.path = ("branch", wt_branch), wt
                    st("linked_worktree_on_a_branch")
                else:
                    repo.head, repo.path = ("detached", cid), wt
                try:
                    fmt = rng.choice(FORMATS)
                    kind = rng.choice(["clean", "clean", "untracked", "modified"])
                    dirty = repo.make_dirty(kind)
                    obs_p = observe_probe(pr, repo, fmt)
                    obs_b = observe_binary(bins, repo, fmt)
                    nobs += 1
                    st("observations")
                    st("linked_worktree_observations")
                    for via, obs in (("probe", obs_p), ("binary", obs_b)):
                        if obs.get("timeout"):
                            continue
                        for sig, why in judge(repo, fmt, dirty, obs, via):
                            if len(bad) < 12:
                                bad.append((sig, "[linked worktree at c%d; %s, -f %s, dirt=%s] %s" % (cid, via, fmt, kind, why),
                                            dict(seed=seed, idx=idx, nops=nops, ops=list(repo.ops) + ["worktree add --detach c%d" % cid], fmt=fmt, dirt=kind, via=via)))
                finally:
                    repo.head, repo.path = saved
                    if wt_branch:
                        repo.branches.pop(wt_branch, None)
    finally:
        if repo is not None:
            shutil_rm(os.path.dirname(path))
    return dict(bad=bad, stats=stats, nobs=nobs, shapes=len(shapes), gitcmds=sorted(gitcmds), commits=len(repo.commits) if repo else 0,
                sample=dict(ops=repo.ops[:25]) if repo else None)


def shutil_rm(p):
    import shutil
    shutil.rmtree(p, ignore_errors=True)


def work_submodule(bins, seed, idx, tmp):
    """a super-project with a checked-out submodule: clean, then with a tracked file edited inside the submodule (` M lib` in `git status`)"""
    rng = random.Random("%s/sub%d" % (seed, idx))
    path = os.path.join(tmp, "sub%d" % idx, "repo")
    os.makedirs(os.path.dirname(path), exist_ok=True)
    pr = core.worker_probe(bins, key="git", env=core.base_env(bins, home=os.path.dirname(path)))
    bad = []
    n = 0
    repo = None
    try:
        repo = gitmodel.Repo(path, rng)
        repo.commit()
        repo.add_submodule()
        repo.tag(rng.choice(["v1.2.3", "2.0.0", "1.0.0-rc.1"]), annotated=bool(idx % 2))
        for _ in range(idx % 3):
            repo.commit()
        for kind in ("clean", "submodule_modified"):
            dirty = repo.make_dirty(kind)
            fmt = rng.choice(FORMATS)
            for via, obs in (("probe", observe_probe(pr, repo, fmt)), ("binary", observe_binary(bins, repo, fmt))):
                n += 1
                if obs.get("timeout"):
                    continue
                for sig, why in judge(repo, fmt, dirty, obs, via):
                    bad.append((sig, "[super-project with submodule; %s, -f %s, dirt=%s] %s" % (via, fmt, kind, why), dict(kind="submodule", seed=seed, idx=idx)))
    except gitmodel.GitError as e:
        raise core.Inconclusive("submodule scenario: %s" % e)
    finally:
        shutil_rm(os.path.dirname(path))
    return dict(n=n, bad=bad)


def work_long(bins, seed, idx, tmp):
    """a long linear history (the listing of its commits is far larger than a pipe buffer) with the tag a few commits below HEAD"""
    import subprocess as _sp
    rng = random.Random("%s/long%d" % (seed, idx))
    home = os.path.join(tmp, "long%d" % idx)
    path = os.path.join(home, "repo")
    os.makedirs(path, exist_ok=True)
    env = gitmodel.git_env(home)
    n = rng.choice([1800, 2600, 4000])
    dist = rng.choice([0, 3, 17])
    bad = []
    try:
        script = "git init -q -b main . && for i in $(seq %d); do git commit -q --allow-empty -m c$i || exit 1; done && git tag v4.5.6 HEAD~%d && git rev-parse HEAD && git rev-parse v4.5.6" % (n, dist)
        e = dict(env, GIT_COMMITTER_DATE="@1700000000 +0000", GIT_AUTHOR_DATE="@1700000000 +0000", PATH=os.path.dirname(core.REAL_GIT) + ":" + env.get("PATH", "/usr/bin:/bin"))
        r = _sp.run(["sh", "-c", script], cwd=path, env=e, capture_output=True, text=True)
        if r.returncode != 0:
            raise core.Inconclusive("long-history generator: %s" % r.stderr[-200:])
        head_sha, tag_sha = r.stdout.split()[-2:]
        r = core.run_zerv(bins, ["version", "-C", path, "--output-format", "zerv"], env=core.base_env(bins, home=home), timeout=240)
        case = dict(kind="long", seed=seed, idx=idx)
        if r["timeout"]:
            return dict(n=1, bad=[])
        if r["exit"] != 0:
            bad.append(("valid-tag-not-found", "[history of %d commits, tag %d below HEAD] zerv failed: %s" % (n, dist, r["err"].strip()[:200]), case))
        else:
            _, v = ron.decode_zerv(r["out"])
            got = (v["last_tag_version"], v["distance"], _strip_g(v["bumped_commit_hash"]), _strip_g(v["last_commit_hash"]), v["dirty"], v["bumped_branch"])
            want = ("v4.5.6", dist, head_sha, tag_sha, False, "main")
            if got != want:
                bad.append(("distance-differs" if got[1] != want[1] else "head-hash-differs", "[history of %d commits] reported %r, the repository says %r" % (n, got, want), case))
    finally:
        shutil_rm(home)
    return dict(n=1, bad=bad)


def run(ctx):
    quick = ctx.tier == "quick"
    nh = 320 if quick else 12000
    jobs = []
    rng = ctx.sub_rng("sizes")
    for i in range(nh):
        jobs.append((ctx.bins, "%s/%d" % (ctx.prop, ctx.seed), i, rng.choice([6, 10, 16, 24, 40]), 12, ctx.tmp))
    res = core.pmap(work_history, jobs)
    gitcmds = set()
    for r in res:
        ctx.evaluations += 2 * r["nobs"]
        ctx.distinct_extra += r["shapes"]
        ctx.merge_counts(r["stats"])
        ctx.count("commits_created", r["commits"])
        gitcmds |= set(r["gitcmds"])
        for sig, why, case in r["bad"]:
            ctx.refute(sig, why, case)
        if r["sample"]:
            ctx.sample(r["sample"], cap=3)
    for r in core.pmap(work_submodule, [(ctx.bins, "%s/%d" % (ctx.prop, ctx.seed), i, ctx.tmp) for i in range(6 if quick else 60)]):
        ctx.evaluations += r["n"]
        ctx.count("submodule_observations", r["n"])
        for sig, why, case in r["bad"]:
            ctx.refute(sig, why, case)
    for r in core.pmap(work_long, [(ctx.bins, "%s/%d" % (ctx.prop, ctx.seed), i, ctx.tmp) for i in range(3 if quick else 16)]):
        ctx.evaluations += r["n"]
        ctx.count("long_history_observations", r["n"])
        for sig, why, case in r["bad"]:
            ctx.refute(sig, why, case)
    ctx.notes.append("git sub-commands seen in shim logs: %s" % sorted(gitcmds))
    need = ["merge_in_history", "unreachable_valid_tag_present", "multi_tag_commit", "head:detached", "no_valid_tag_states", "annotated_on_chosen_commit"] + \
           ["dirt:" + k for k in gitmodel.DIRT_KINDS]
    missing = [k for k in need if not ctx.counters.get(k)]
    if missing:
        raise core.Inconclusive("minimum-observation rule not met, never saw: %s" % missing)
    ctx.rule = ("%d random histories of 6-40 operations (commit, branch at any commit, checkout, --no-ff and fast-forward merges, lightweight/annotated tags on HEAD, "
                "on arbitrary - possibly unreachable - commits and on already tagged commits, SemVer-only / PEP 440-only / common / non-version tag names, detach) "
                "with random committer/author/tagger dates; after ~half of the steps one of 7 work-tree dirt kinds is applied and the state is observed through "
                "the probe (VcsData) and the binary (--output-format zerv) under a random input format. distinct = distinct (DAG, tags, HEAD, dirt) states" % nh)
    ctx.assumptions = ["native git 2.39.5 executes the generator's operations faithfully; the model names commits by the hashes git reports",
                       "ties (equal precedence on one commit, several nearest commits, auto format with per-commit majority vote) accept every candidate"]


def replay(ctx, doc):
    c = doc["case"]
    if c.get("kind") == "long":
        r = work_long(ctx.bins, c["seed"], c["idx"], ctx.tmp)
        r["nobs"] = r["n"]
    elif c.get("kind") == "submodule":
        r = work_submodule(ctx.bins, c["seed"], c["idx"], ctx.tmp)
        r["nobs"] = r["n"]
    else:
        r = work_history(ctx.bins, c["seed"], c["idx"], c["nops"], 12, ctx.tmp)
    for sig, why, case in r["bad"]:
        print(sig, why)
    if r["bad"]:
        print("VIOLATION property=C02 replay=%s" % doc.get("_path", "?"))
        return 1
    print("no disagreement on replay (%d observations)" % r["nobs"])
    return 0
