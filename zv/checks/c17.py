"""C17 — timestamp patterns and CalVer components are the UTC calendar fields.

Observation: probe `ts_grid` (zerv::version::zerv::resolve_timestamp) under several TZ
values; the real binary with calver presets and `ts("P")` schema components; stdin
objects with only last_timestamp set.  Oracle: zv.refs.cal (own civil calendar)."""
import os
import re

from .. import core
from ..refs import cal

MINIMUMS = (50000, 1000)
TZS = ["UTC", "Pacific/Kiritimati", "Pacific/Pago_Pago", "Asia/Kolkata"]
CALVER = ["calver", "calver-no-context", "calver-context", "calver-base", "calver-base-prerelease", "calver-base-prerelease-post",
          "calver-base-prerelease-post-dev", "calver-base-context", "calver-base-prerelease-context",
          "calver-base-prerelease-post-context", "calver-base-prerelease-post-dev-context"]
DAY = 86400
LAST_DAY = cal.days_from_civil(2199, 12, 31)


def work_grid(bins, tz, timestamps):
    pr = core.worker_probe(bins, key="tz:" + tz, env=core.base_env(bins, tz=tz))
    bad = []
    n = 0
    days = set()
    for part in core.chunks(timestamps, 4000):
        rep = pr.call(dict(op="ts_grid", patterns=cal.PATTERNS, timestamps=part))
        for t, row in zip(part, rep["results"]):
            days.add(t // DAY)
            if isinstance(row, dict):
                bad.append(("panic@" + row.get("at", "?").rsplit(":", 1)[0], "resolve_timestamp panicked at t=%d: %s" % (t, row.get("panic")), t, None, None))
                continue
            for p, got in zip(cal.PATTERNS, row):
                n += 1
                exp = cal.resolve(p, t)
                if got != exp:
                    if len(bad) < 40:
                        bad.append(("timestamp-field-differs", "resolve_timestamp(%r, %d) = %r, UTC calendar says %r (TZ=%s)" % (p, t, got, exp, tz), t, p, got))
                    else:
                        bad.append(("timestamp-field-differs", None, None, None, None))
    return dict(n=n, bad=bad, days=len(days))


_NUM3 = re.compile(r"^(\d+)\.(\d+)\.(\d+)(?:[-.+]|$)")


def work_cli(bins, tz, cases):
    env = core.base_env(bins, tz=tz)
    bad = []
    n = 0
    for c in cases:
        kind = c[0]
        if kind == "calver":
            _, preset, t, fmt, via = c
            if via == "bumped":
                argv = ["version", "--source", "none", "--tag-version", "1.0.7", "--bumped-timestamp", str(t), "--schema", preset, "--output-format", fmt]
                r = core.run_zerv(bins, argv, env=env)
            elif via == "both":
                # commit time and tag time both known: the commit time decides ("or, failing that, tag time")
                other = (t * 7919 + 86400 * 400) % (LAST_DAY * DAY)
                ron = STDIN_OBJ % ("Some(%d)" % t, "Some(%d)" % other)
                argv = ["version", "--source", "stdin", "--schema", preset, "--output-format", fmt]
                r = core.run_zerv(bins, argv, stdin=ron, env=env)
            else:
                ron = STDIN_OBJ % ("None", "Some(%d)" % t)
                argv = ["version", "--source", "stdin", "--schema", preset, "--output-format", fmt]
                r = core.run_zerv(bins, argv, stdin=ron, env=env)
            n += 1
            if r["exit"] != 0:
                bad.append(("calver-run-failed", "exit %s: %s" % (r["exit"], r["err"][:200]), c))
                continue
            m = _NUM3.match(r["out"].strip())
            f = cal.fields(t)
            if not m or (int(m.group(1)), int(m.group(2)), int(m.group(3))) != (f["y"], f["m"], f["d"]):
                bad.append(("calver-date-differs", "%s printed %r for t=%d; UTC date is %d-%d-%d (TZ=%s, via %s)" % (preset, r["out"].strip(), t, f["y"], f["m"], f["d"], tz, via), c))
        elif kind == "ts":
            _, pat, t, via = c
            schema = '(core:[var(Major)], extra_core:[], build:[str("x"), var(ts("%s")), str("y")])' % pat
            if via == "bumped":
                argv = ["version", "--source", "none", "--tag-version", "3.0.0", "--bumped-timestamp", str(t), "--schema-ron", schema]
                r = core.run_zerv(bins, argv, env=env)
            elif via == "both":
                other = (t * 7919 + 86400 * 400) % (LAST_DAY * DAY)
                ron = STDIN_OBJ % ("Some(%d)" % t, "Some(%d)" % other)
                r = core.run_zerv(bins, ["version", "--source", "stdin", "--schema-ron", schema], stdin=ron, env=env)
            else:
                ron = STDIN_OBJ % ("None", "Some(%d)" % t)
                r = core.run_zerv(bins, ["version", "--source", "stdin", "--schema-ron", schema], stdin=ron, env=env)
            n += 1
            if r["exit"] != 0:
                bad.append(("ts-pattern-refused", "documented pattern %r refused: %s" % (pat, r["err"][:200]), c))
                continue
            exp = str(int(cal.resolve(pat, t)))     # version rendering strips leading zeros by design
            want = ("3.0.0+x.%s.y" if via == "bumped" else "1.0.0+x.%s.y") % exp
            if r["out"].strip() != want:
                bad.append(("ts-component-differs", "ts(%r) at t=%d printed %r, expected %r (TZ=%s, via %s)" % (pat, t, r["out"].strip(), want, tz, via), c))
    return dict(n=n, bad=bad)


STDIN_OBJ = """(
    schema: (core: [var(Major), var(Minor), var(Patch)], extra_core: [], build: []),
    vars: (major: Some(1), minor: Some(0), patch: Some(7), epoch: None, pre_release: None, post: None, dev: None,
        distance: None, dirty: None, bumped_branch: None, bumped_commit_hash: None, bumped_timestamp: %s,
        last_branch: None, last_commit_hash: None, last_timestamp: %s, last_tag_version: None, custom: {}),
)"""


def work_git(bins, seed, idx, tmp):
    """CalVer from a real repository: the *committer* time of HEAD decides (author and tagger dates differ on purpose);
    when HEAD is ahead of the tag it is still HEAD's time, not the tag's."""
    import random
    import shutil
    from .. import gitmodel
    rng = random.Random("%s/%d" % (seed, idx))
    home = os.path.join(tmp, "g%d" % idx)
    path = os.path.join(home, "repo")
    os.makedirs(home, exist_ok=True)
    bad = []
    n = 0
    try:
        repo = gitmodel.Repo(path, rng)
        repo.commit()
        repo.tag("v1.2.3", annotated=rng.random() < 0.5)
        for step in range(4):
            head = repo.commits[repo.head_cid()]
            f = cal.fields(head["ctime"])
            tz = rng.choice(TZS)
            env = core.base_env(bins, home=home, tz=tz)
            for preset, fmt in ((rng.choice(CALVER), "semver"), (rng.choice(CALVER), "pep440")):
                r = core.run_zerv(bins, ["version", "-C", path, "--schema", preset, "--output-format", fmt], env=env)
                n += 1
                m = _NUM3.match(r["out"].strip()) if r["exit"] == 0 else None
                if not m or (int(m.group(1)), int(m.group(2)), int(m.group(3))) != (f["y"], f["m"], f["d"]):
                    bad.append(("calver-date-differs", "git source: %s printed %r (exit %s); committer time of HEAD %d is %d-%d-%d UTC (author time %d, TZ=%s)" % (
                        preset, r["out"].strip(), r["exit"], head["ctime"], f["y"], f["m"], f["d"], head["atime"], tz), ("git", seed, idx)))
            schema = '(core:[var(Major)], extra_core:[], build:[var(ts("compact_datetime")), var(ts("YY")), var(ts("WW"))])'
            r = core.run_zerv(bins, ["version", "-C", path, "--schema-ron", schema], env=env)
            n += 1
            want = "1.0.0+%s.%d.%d" % (cal.resolve("compact_datetime", head["ctime"]), int(cal.resolve("YY", head["ctime"])), int(cal.resolve("WW", head["ctime"])))
            if r["exit"] != 0 or r["out"].strip() != want:
                bad.append(("ts-component-differs", "git source: ts components printed %r, expected %r" % (r["out"].strip(), want), ("git", seed, idx)))
            repo.commit()
    except gitmodel.GitError as e:
        raise core.Inconclusive("git generator: %s" % e)
    finally:
        shutil.rmtree(home, ignore_errors=True)
    return dict(n=n, bad=bad)


def run(ctx):
    quick = ctx.tier == "quick"
    rng = ctx.sub_rng("ts")
    ts = []
    step = 1
    start = rng.randrange(step)
    for d in range(start, LAST_DAY + 1, step):
        ts.append(d * DAY)
        ts.append(d * DAY + DAY - 1)
    # always include the year boundaries and leap days
    for y in range(1970, 2200):
        for (m, d) in ((1, 1), (12, 31), (2, 28), (3, 1)):
            dd = cal.days_from_civil(y, m, d)
            ts += [dd * DAY, dd * DAY + DAY - 1]
        if (y % 4 == 0 and y % 100 != 0) or y % 400 == 0:
            ts.append(cal.days_from_civil(y, 2, 29) * DAY + 43200)
    ts += [rng.randrange(0, (LAST_DAY + 1) * DAY) for _ in range(5000 if quick else 300000)]
    ts = sorted(set(ts))
    parts = core.split_even(ts, 32)
    jobs = [(ctx.bins, TZS[i % len(TZS)], p) for i, p in enumerate(parts)]
    # a second pass of a sample under a different TZ so that every instant class meets a non-UTC zone
    jobs += [(ctx.bins, TZS[(i + 1) % len(TZS)], rng.sample(p, min(len(p), 500))) for i, p in enumerate(parts)]
    res = core.pmap(work_grid, jobs)
    for (b, tz, p), r in zip(jobs, res):
        ctx.evaluations += r["n"]
        ctx.count("probe_calls_TZ=" + tz, r["n"])
        for sig, why, t, pat, got in r["bad"]:
            if why is None:
                ctx.violations.append((sig, None))
            else:
                ctx.refute(sig, why, dict(kind="grid", t=t, pattern=pat, tz=tz), observed=got)
    ctx.distinct_extra += len(ts)
    ctx.count("distinct_instants", len(ts))
    ctx.count("distinct_days", len(set(t // DAY for t in ts)))
    # CLI
    cases = []
    ncal = 5000 if quick else 50000
    for i in range(ncal):
        t = rng.choice(ts) if rng.random() < 0.7 else rng.randrange(0, (LAST_DAY + 1) * DAY)
        cases.append(("calver", rng.choice(CALVER), t, rng.choice(["semver", "pep440"]), rng.choice(["bumped", "bumped", "last", "both"])))
    for p in cal.PATTERNS:
        for i in range(40 if quick else 600):
            cases.append(("ts", p, rng.choice(ts), ["bumped", "last", "both"][i % 3]))
    rng.shuffle(cases)
    cparts = core.split_even(cases, 32)
    cjobs = [(ctx.bins, TZS[i % len(TZS)], p) for i, p in enumerate(cparts)]
    seen_pat = set()
    for (b, tz, p), r in zip(cjobs, core.pmap(work_cli, cjobs)):
        ctx.evaluations += r["n"]
        ctx.count("cli_runs_TZ=" + tz, r["n"])
        for sig, why, c in r["bad"]:
            ctx.refute(sig, why, dict(kind="cli", case=list(c), tz=tz))
    for r in core.pmap(work_git, [(ctx.bins, "%s/%d" % (ctx.prop, ctx.seed), i, ctx.tmp) for i in range(16 if quick else 200)]):
        ctx.evaluations += r["n"]
        ctx.count("cli_runs_git_source", r["n"])
        for sig, why, c in r["bad"]:
            ctx.refute(sig, why, dict(kind="git", case=list(c)))
    for c in cases:
        if c[0] == "ts":
            seen_pat.add(c[1])
    ctx.count("patterns_accepted_by_name_in_schema", len(seen_pat))
    ctx.sample(dict(t=1710511845, expected={p: cal.resolve(p, 1710511845) for p in cal.PATTERNS}))
    ctx.sample(dict(cli_case=list(cases[0])))
    ctx.rule = ("%s day from 1970-01-01 to 2199-12-31 at its first and last second, all year boundaries, Feb 28/29, Mar 1, plus random instants "
                "(%d distinct instants) x 16 patterns at the probe, shards running under TZ in %r; %d CLI runs of the 11 calver presets (semver and pep440, "
                "time given as bumped or only as last timestamp) and %d runs of ts(\"P\") schema components for each of the 16 names. "
                "non-trivial = distinct instants" % ("every", len(ts), TZS, ncal, len(cases) - ncal))
    ctx.exhaustive = True
    ctx.assumptions = ["oracle: Hinnant civil-from-days, %W = Monday-based week number with days before the first Monday in week 0",
                       "CLI values compared as integers (version rendering strips leading zeros by design)"]


def replay(ctx, doc):
    c = doc["case"]
    if c["kind"] == "git":
        r = work_git(ctx.bins, c["case"][1], c["case"][2], ctx.tmp)
    elif c["kind"] == "grid":
        r = work_grid(ctx.bins, c["tz"], [c["t"]])
    else:
        r = work_cli(ctx.bins, c["tz"], [tuple(c["case"])])
    print(r)
    if r["bad"]:
        print("VIOLATION property=C17 replay=%s" % doc.get("_path", "?"))
        return 1
    return 0
