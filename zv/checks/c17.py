"""C17 — timestamp patterns and CalVer components are the UTC calendar fields.

Observation: probe `ts_grid` (zerv::version::zerv::resolve_timestamp) under several TZ
values; the real binary with calver presets and `ts("P")` schema components; stdin
objects with only last_timestamp set.  Oracle: zv.refs.cal (own civil calendar)."""
import os
import re

from .. import core
from ..refs import cal

MINIMUMS = (50000, 1000)
TZS = ["UTC", "Pacific/Kiritimati", "Pacific/Pago_Pago", "Asia/Kolkata"]
CALVER = ["calver", "calver-no-context", "calver-context", "calver-base", "calver-base-prerelease", "calver-base-prerelease-post",
          "calver-base-prerelease-post-dev", "calver-base-context", "calver-base-prerelease-context",
          "calver-base-prerelease-post-context", "calver-base-prerelease-post-dev-context"]
DAY = 86400
LAST_DAY = cal.days_from_civil(2199, 12, 31)
FAR = (cal.days_from_civil(9999, 12, 31) + 1) * DAY      # 253402300800 = 10000-01-01T00:00:00Z


def work_grid(bins, tz, timestamps):
    pr = core.worker_probe(bins, key="tz:" + tz, env=core.base_env(bins, tz=tz))
    bad = []
    n = 0
    days = set()
    for part in core.chunks(timestamps, 4000):
        rep = pr.call(dict(op="ts_grid", patterns=cal.PATTERNS, timestamps=part))
        for t, row in zip(part, rep["results"]):
            days.add(t // DAY)
            if isinstance(row, dict):
                bad.append(("panic@" + row.get("at", "?").rsplit(":", 1)[0], "resolve_timestamp panicked at t=%d: %s" % (t, row.get("panic")), t, None, None))
                continue
            for p, got in zip(cal.PATTERNS, row):
                n += 1
                exp = cal.resolve(p, t)
                if isinstance(got, dict) and "err" in got and t >= FAR:
                    continue      # beyond 9999-12-31 a refusal is accepted ("for every Unix timestamp ... the resolved value is"): a value, if given, must be right
                if got != exp:
                    if len(bad) < 40:
                        bad.append(("timestamp-field-differs", "resolve_timestamp(%r, %d) = %r, UTC calendar says %r (TZ=%s)" % (p, t, got, exp, tz), t, p, got))
                    else:
                        bad.append(("timestamp-field-differs", None, None, None, None))
    return dict(n=n, bad=bad, days=len(days))


_NUM3 = re.compile(r"^(?:\d+!)?(\d+)\.(\d+)\.(\d+)(?:[-.+a-z]|$)")      # an epoch (`2!`) may precede the date in PEP 440 output


def work_cli(bins, tz, cases):
    env0 = env = core.base_env(bins, tz=tz)
    bad = []
    n = 0
    for c in cases:
        kind = c[0]
        env = env0
        if kind == "calver":
            _, preset, t, fmt, via = c[:5]
            # the version state decides the tier of the smart presets; the date must be there in every one of them
            pre, post, dev, dist, dirty = STATES[c[5] if len(c) > 5 else 0]
            # dirty states take the documented wall-clock instant instead of the commit time: the pinned clock is set to the same
            # instant, so the expected date does not depend on which of the two zerv reads
            env = core.base_env(bins, tz=tz, now=t) if dirty else env0
            if via == "bumped":
                argv = ["version", "--source", "none", "--tag-version", "1.0.7", "--bumped-timestamp", str(t), "--schema", preset, "--output-format", fmt]
                if pre:
                    argv += ["--pre-release-label", pre[0], "--pre-release-num", str(pre[1])]
                for flag, val in (("--post", post), ("--dev", dev), ("--distance", dist)):
                    if val is not None:
                        argv += [flag, str(val)]
                if dirty:
                    argv += ["--dirty"]
                if t % 7 == 3:
                    argv += ["--epoch", "2"]
                if t % 5 == 1 and dist is None and not dirty:
                    argv += ["--clean"]          # "clean" is about distance and dirt; the commit keeps its own time
                r = core.run_zerv(bins, argv, env=env)
            elif via == "both":
                # commit time and tag time both known: the commit time decides ("or, failing that, tag time")
                other = (t * 7919 + 86400 * 400) % (LAST_DAY * DAY)
                ron = stdin_obj("Some(%d)" % t, "Some(%d)" % other, c[5] if len(c) > 5 else 0)
                argv = ["version", "--source", "stdin", "--schema", preset, "--output-format", fmt]
                if t % 5 in (1, 2):
                    argv += ["--clean"]          # forgets distance and dirt, not the commit's own time (and a dirty object no longer reads the clock)
                    env = env0
                r = core.run_zerv(bins, argv, stdin=ron, env=env)
            else:
                ron = stdin_obj("None", "Some(%d)" % t, c[5] if len(c) > 5 else 0)
                argv = ["version", "--source", "stdin", "--schema", preset, "--output-format", fmt]
                r = core.run_zerv(bins, argv, stdin=ron, env=env)
            n += 1
            if r["exit"] != 0:
                bad.append(("calver-run-failed", "exit %s: %s" % (r["exit"], r["err"][:200]), c))
                continue
            m = _NUM3.match(r["out"].strip())
            f = cal.fields(t)
            if not m or (int(m.group(1)), int(m.group(2)), int(m.group(3))) != (f["y"], f["m"], f["d"]):
                bad.append(("calver-date-differs", "%s printed %r for t=%d; UTC date is %d-%d-%d (TZ=%s, via %s, version state %r)" % (
                    preset, r["out"].strip(), t, f["y"], f["m"], f["d"], tz, via, STATES[c[5] if len(c) > 5 else 0]), c))
        elif kind == "ts":
            _, pat, t, via = c
            where = t % 3
            schema = ('(core:[var(Major)], extra_core:[], build:[str("x"), var(ts("%s")), str("y")])',
                      '(core:[var(Major), var(Minor), var(Patch)], extra_core:[str("x"), var(ts("%s")), str("y")], build:[])',
                      '(core:[var(Major), var(Minor), var(Patch), str("x"), var(ts("%s")), str("y")], extra_core:[], build:[])')[where] % pat
            if via == "bumped":
                argv = ["version", "--source", "none", "--tag-version", "3.0.0", "--bumped-timestamp", str(t), "--schema-ron", schema]
                r = core.run_zerv(bins, argv, env=env)
            elif via == "both":
                other = (t * 7919 + 86400 * 400) % (LAST_DAY * DAY)
                ron = STDIN_OBJ % ("Some(%d)" % t, "Some(%d)" % other)
                r = core.run_zerv(bins, ["version", "--source", "stdin", "--schema-ron", schema], stdin=ron, env=env)
            else:
                ron = STDIN_OBJ % ("None", "Some(%d)" % t)
                r = core.run_zerv(bins, ["version", "--source", "stdin", "--schema-ron", schema], stdin=ron, env=env)
            n += 1
            if r["exit"] != 0:
                bad.append(("ts-pattern-refused", "documented pattern %r refused: %s" % (pat, r["err"][:200]), c))
                continue
            exp = str(int(cal.resolve(pat, t)))     # version rendering strips leading zeros by design
            base = "3.0.0" if via == "bumped" else ("1.0.0" if where == 0 else "1.0.7")
            want = (base + "+x.%s.y" if where == 0 else base + "-x.%s.y") % exp
            if r["out"].strip() != want:
                bad.append(("ts-component-differs", "ts(%r) at t=%d printed %r, expected %r (TZ=%s, via %s)" % (pat, t, r["out"].strip(), want, tz, via), c))
    return dict(n=n, bad=bad)


STDIN_OBJ = """(
    schema: (core: [var(Major), var(Minor), var(Patch)], extra_core: [], build: []),
    vars: (major: Some(1), minor: Some(0), patch: Some(7), epoch: None, pre_release: None, post: None, dev: None,
        distance: None, dirty: None, bumped_branch: None, bumped_commit_hash: None, bumped_timestamp: %s,
        last_branch: None, last_commit_hash: None, last_timestamp: %s, last_tag_version: None, custom: {}),
)"""

# (pre-release, post, dev, distance, dirty): clean release, clean pre-release, pre-release + post, ahead of the tag, ahead with dev, dirty,
# dirty pre-release ahead of the tag -- every tier of the smart presets with and without a pre-release
STATES = [(None, None, None, None, False), (("rc", 2), None, None, None, False), (("alpha", 1), 3, None, None, False),
          (None, None, None, 4, False), (("beta", 5), 2, 6, 3, False), (None, None, None, None, True), (("rc", 1), None, None, 2, True),
          (("beta", 9), None, None, 0, False)]


def stdin_obj(bumped, last, state):
    pre, post, dev, dist, dirty = STATES[state]
    o = lambda x: "None" if x is None else "Some(%d)" % x
    s = STDIN_OBJ % (bumped, last)
    s = s.replace("pre_release: None", "pre_release: %s" % ("None" if pre is None else "Some((label: %s, number: Some(%d)))" % (pre[0].capitalize(), pre[1])))
    s = s.replace("post: None, dev: None", "post: %s, dev: %s" % (o(post), o(dev)))
    s = s.replace("distance: None, dirty: None", "distance: %s, dirty: %s" % (o(dist), "Some(true)" if dirty else "None"))
    return s


EDGE_INSTANTS = [0, 1, 86399, 2 ** 31 - 1, 2 ** 31, 4102444800, 7258118399]


def work_git(bins, seed, idx, tmp):
    """CalVer from a real repository: the *committer* time of HEAD decides (author and tagger dates differ on purpose);
    when HEAD is ahead of the tag it is still HEAD's time, not the tag's."""
    import random
    import shutil
    from .. import gitmodel
    rng = random.Random("%s/%d" % (seed, idx))
    home = os.path.join(tmp, "g%d" % idx)
    path = os.path.join(home, "repo")
    os.makedirs(home, exist_ok=True)
    bad = []
    n = 0
    try:
        repo = gitmodel.Repo(path, rng)
        # every job puts one commit on an edge instant (the epoch itself, its first day, the i32 boundary, 2100, the last second of 2199):
        # jobs 0..6 on the tagged commit, 7..13 on a later HEAD, and so on alternating
        edge, edge_at = EDGE_INSTANTS[idx % len(EDGE_INSTANTS)], (idx // len(EDGE_INSTANTS)) % 3
        if edge_at == 0:
            repo.force_ctime = edge
        repo.commit()
        repo.tag(rng.choice(["v1.2.3", "v1.4.0-rc.2", "v1.0.0-alpha.1", "1.9.0b3", "v1.2.3.post4", "v1.5.0-beta.1.post.2"]), annotated=rng.random() < 0.5)
        for step in range(4):
            # HEAD at the tag / ahead of it, clean / dirty: every tier of the smart presets
            if rng.random() < 0.4:
                repo.make_dirty(rng.choice(["modified", "untracked", "staged_new"]))
            else:
                repo.clean()
            head = repo.commits[repo.head_cid()]
            f = cal.fields(head["ctime"])
            tz = rng.choice(TZS)
            env = core.base_env(bins, home=home, tz=tz, now=head["ctime"])   # dirty states read the (pinned) wall clock
            for preset, fmt in ((rng.choice(CALVER), "semver"), (rng.choice(CALVER), "pep440")):
                r = core.run_zerv(bins, ["version", "-C", path, "--schema", preset, "--output-format", fmt] + (["--clean"] if rng.random() < 0.3 else []), env=env)
                n += 1
                m = _NUM3.match(r["out"].strip()) if r["exit"] == 0 else None
                if not m or (int(m.group(1)), int(m.group(2)), int(m.group(3))) != (f["y"], f["m"], f["d"]):
                    bad.append(("calver-date-differs", "git source: %s printed %r (exit %s); committer time of HEAD %d is %d-%d-%d UTC (author time %d, TZ=%s)" % (
                        preset, r["out"].strip(), r["exit"], head["ctime"], f["y"], f["m"], f["d"], head["atime"], tz), ("git", seed, idx)))
            schema = '(core:[var(Major)], extra_core:[], build:[var(ts("compact_datetime")), var(ts("YY")), var(ts("WW"))])'
            r = core.run_zerv(bins, ["version", "-C", path, "--schema-ron", schema], env=env)
            n += 1
            want = "1.0.0+%s.%d.%d" % (cal.resolve("compact_datetime", head["ctime"]), int(cal.resolve("YY", head["ctime"])), int(cal.resolve("WW", head["ctime"])))
            if r["exit"] != 0 or r["out"].strip() != want:
                bad.append(("ts-component-differs", "git source: ts components printed %r, expected %r" % (r["out"].strip(), want), ("git", seed, idx)))
            if edge_at == step + 1:
                repo.force_ctime = edge
            repo.commit()
    except gitmodel.GitError as e:
        raise core.Inconclusive("git generator: %s" % e)
    finally:
        shutil.rmtree(home, ignore_errors=True)
    return dict(n=n, bad=bad)


def run(ctx):
    quick = ctx.tier == "quick"
    rng = ctx.sub_rng("ts")
    ts = []
    step = 1
    start = rng.randrange(step)
    for d in range(start, LAST_DAY + 1, step):
        ts.append(d * DAY)
        ts.append(d * DAY + DAY - 1)
    # always include the year boundaries and leap days
    for y in range(1970, 2200):
        for (m, d) in ((1, 1), (12, 31), (2, 28), (3, 1)):
            dd = cal.days_from_civil(y, m, d)
            ts += [dd * DAY, dd * DAY + DAY - 1]
        if (y % 4 == 0 and y % 100 != 0) or y % 400 == 0:
            ts.append(cal.days_from_civil(y, 2, 29) * DAY + 43200)
    ts += [rng.randrange(0, (LAST_DAY + 1) * DAY) for _ in range(5000 if quick else 1000000)]
    # the statement says "every Unix timestamp": beyond the quantifier's 2199 too - up to year 99999, the five-digit-year boundary, and the i64 / u64 edges
    far = [rng.randrange((LAST_DAY + 1) * DAY, FAR) for _ in range(1500 if quick else 150000)] + [rng.randrange(FAR, 3093527980800) for _ in range(1500 if quick else 150000)]
    far += [FAR - 1, FAR, FAR + 1, FAR + 86399, FAR + 86400 * 366, 3093527980799, 3093527980800, 8210266876799, 8210266876800, 10 ** 13, 2 ** 53, 2 ** 62, 2 ** 63 - 1, 2 ** 63, 2 ** 63 + 1,
            2 ** 64 - 86400, 2 ** 64 - 2, 2 ** 64 - 1]
    ts = sorted(set(ts + far))
    ctx.count("instants_beyond_2199", len(set(far)))
    parts = core.split_even(ts, 32)
    jobs = [(ctx.bins, TZS[i % len(TZS)], p) for i, p in enumerate(parts)]
    # a second pass of a sample under a different TZ so that every instant class meets a non-UTC zone
    jobs += [(ctx.bins, TZS[(i + 1) % len(TZS)], rng.sample(p, min(len(p), 500))) for i, p in enumerate(parts)]
    res = core.pmap(work_grid, jobs)
    for (b, tz, p), r in zip(jobs, res):
        ctx.evaluations += r["n"]
        ctx.count("probe_calls_TZ=" + tz, r["n"])
        for sig, why, t, pat, got in r["bad"]:
            if why is None:
                ctx.violations.append((sig, None))
            else:
                ctx.refute(sig, why, dict(kind="grid", t=t, pattern=pat, tz=tz), observed=got)
    ctx.distinct_extra += len(ts)
    ctx.count("distinct_instants", len(ts))
    ctx.count("distinct_days", len(set(t // DAY for t in ts)))
    # CLI
    cases = []
    ncal = 5000 if quick else 200000
    for i in range(ncal):
        t = rng.choice(ts) if rng.random() < 0.7 else rng.randrange(0, (LAST_DAY + 1) * DAY)
        if t >= 3093527980800:
            t = t % 3093527980800        # the CLI cases stay within years 1970..99999 (beyond that the resolver may refuse, see work_grid)
        cases.append(("calver", rng.choice(CALVER), t, rng.choice(["semver", "pep440"]), rng.choice(["bumped", "bumped", "last", "both"]), i % len(STATES)))
    for p in cal.PATTERNS:
        for i in range(40 if quick else 2400):
            cases.append(("ts", p, rng.choice(ts) % 3093527980800, ["bumped", "last", "both"][i % 3]))
    rng.shuffle(cases)
    cparts = core.split_even(cases, 32)
    cjobs = [(ctx.bins, TZS[i % len(TZS)], p) for i, p in enumerate(cparts)]
    seen_pat = set()
    for (b, tz, p), r in zip(cjobs, core.pmap(work_cli, cjobs)):
        ctx.evaluations += r["n"]
        ctx.count("cli_runs_TZ=" + tz, r["n"])
        for sig, why, c in r["bad"]:
            ctx.refute(sig, why, dict(kind="cli", case=list(c), tz=tz))
    for r in core.pmap(work_git, [(ctx.bins, "%s/%d" % (ctx.prop, ctx.seed), i, ctx.tmp) for i in range(21 if quick else 630)]):
        ctx.evaluations += r["n"]
        ctx.count("cli_runs_git_source", r["n"])
        for sig, why, c in r["bad"]:
            ctx.refute(sig, why, dict(kind="git", case=list(c)))
    for c in cases:
        if c[0] == "ts":
            seen_pat.add(c[1])
    ctx.count("patterns_accepted_by_name_in_schema", len(seen_pat))
    ctx.sample(dict(t=1710511845, expected={p: cal.resolve(p, 1710511845) for p in cal.PATTERNS}))
    ctx.sample(dict(cli_case=list(cases[0])))
    ctx.rule = ("%s day from 1970-01-01 to 2199-12-31 at its first and last second, all year boundaries, Feb 28/29, Mar 1, plus random instants "
                "(%d distinct instants) x 16 patterns at the probe, shards running under TZ in %r; %d CLI runs of the 11 calver presets (semver and pep440, "
                "time given as bumped or only as last timestamp) and %d runs of ts(\"P\") schema components for each of the 16 names. "
                "non-trivial = distinct instants" % ("every", len(ts), TZS, ncal, len(cases) - ncal))
    ctx.exhaustive = True
    ctx.assumptions = ["oracle: Hinnant civil-from-days, %W = Monday-based week number with days before the first Monday in week 0",
                       "CLI values compared as integers (version rendering strips leading zeros by design)"]


def replay(ctx, doc):
    c = doc["case"]
    if c["kind"] == "git":
        r = work_git(ctx.bins, c["case"][1], c["case"][2], ctx.tmp)
    elif c["kind"] == "grid":
        r = work_grid(ctx.bins, c["tz"], [c["t"]])
    else:
        r = work_cli(ctx.bins, c["tz"], [tuple(c["case"])])
    print(r)
    if r["bad"]:
        print("VIOLATION property=C17 replay=%s" % doc.get("_path", "?"))
        return 1
    return 0
