"""C10 — SemVer comparison is SemVer 2.0.0 precedence.

Observation: probe `cmp_matrix` (Ord, PartialOrd, ==, <, >, <=, >= on parsed SemVer
values of the real library) and `max_tag` (GitUtils::find_max_version_tag).
Oracle: zv.refs.semver.key."""
import itertools

from .. import core
from ..refs import semver as ref
from . import cmpcommon

MINIMUMS = (100000, 500)
NUMS = [0, 1, 2, 10]
IDS = ["0", "1", "10", "a", "B", "-"]


# every word zerv's own converters give a meaning to (SemVer precedence gives them none: plain ASCII order), in three letter cases
LABEL_WORDS = [w2 for w in ("dev", "post", "epoch", "pre", "preview", "c", "r", "rev", "alpha", "beta", "rc", "final", "release", "snapshot", "build", "nightly", "none", "null")
               for w2 in (w, w.upper(), w.capitalize())]


def universe():
    out = []
    pres = [None]
    for n in (1, 2, 3):
        pres += [list(t) for t in itertools.product(IDS, repeat=n)]
    for a, b, c in itertools.product(NUMS, repeat=3):
        for p in pres:
            s = "%d.%d.%d" % (a, b, c)
            if p:
                s += "-" + ".".join(p)
            out.append(s)
    return out


def random_large(rng, n):
    nums = [0, 1, 2, 9, 10, 11, 99, 100, 2 ** 31, 2 ** 32, 2 ** 53 + 1, 2 ** 63, 2 ** 64 - 2, 2 ** 64 - 1]
    ids = ["alpha", "beta", "rc", "Alpha", "ALPHA", "a", "b", "A", "B", "-", "--", "a-", "-a", "0a", "a0", "00a", "0-", "z", "Z", "aa", "ab", "a1", "a10", "a2"] + LABEL_WORDS
    # plus identifiers nobody listed: a comparison that singles out some word has to be right for the others too
    ids += ["".join(rng.choice("abcdefghijklmnopqrstuvwxyzABCDEFGHIJKLMNOPQRSTUVWXYZ0123456789-") for _ in range(rng.randrange(1, 9))) for _ in range(60)]
    ids = [i for i in ids if not (i.isdigit() and len(i) > 1 and i[0] == "0")]
    out = []
    for _ in range(n):
        s = "%d.%d.%d" % (rng.choice(nums), rng.choice(nums[:5]), rng.choice(nums[:5]))
        if rng.random() < 0.8:
            k = rng.choice([1, 1, 2, 3, 5, 8])
            s += "-" + ".".join(str(rng.choice(nums)) if rng.random() < 0.45 else rng.choice(ids) for _ in range(k))
        if rng.random() < 0.4:
            s += "+" + ".".join(rng.choice(["1", "01", "x", "build", "0", "zzz"]) for _ in range(rng.randrange(1, 4)))
        if rng.random() < 0.1:
            s = "v" + s
        out.append(s)
    return out


def boundary_families():
    vals = [0, 1, 2, 9, 10, 2 ** 32 - 1, 2 ** 32, 2 ** 63 - 1, 2 ** 63, 2 ** 64 - 2, 2 ** 64 - 1]
    texts = ["a", "a1", "a2", "a10", "1a", "10a", "2a", "-", "-1", "--", "0a", "0-", "A", "Z", "a-", "a-1", "aa", "b", "rc", "RC", "rc1", "rc10", "rc2"]
    out = []
    for v in vals:
        out += ["%d.0.0" % v, "1.%d.0" % v, "1.0.%d" % v, "1.0.0-%d" % v, "1.0.0-rc.%d" % v, "1.0.0-%d.a" % v, "1.0.0-a.%d.b" % v, "1.0.0-0.%d" % v]
    for t in texts + LABEL_WORDS:
        out += ["1.0.0-%s" % t, "1.0.0-rc.%s" % t, "1.0.0-%s.1" % t, "1.0.0-1.%s" % t, "1.0.0-%s.%s" % (t, t)]
    return out


def key(s):
    return ref.key(ref.parse(s, allow_v=True))


def work_max_tag(bins, lists):
    pr = core.worker_probe(bins)
    bad = []
    for tags, perm in lists:
        r1 = pr.call(dict(op="max_tag", fmt="semver", tags=tags))
        r2 = pr.call(dict(op="max_tag", fmt="semver", tags=perm))
        for r, lst in ((r1, tags), (r2, perm)):
            if "panic" in r or "err" in r:
                bad.append(("max-tag-error", "max_tag failed: %r" % (r,), lst))
                continue
            valid = [t for t in lst if ref.parse(t, True) is not None]
            if sorted(r["valid"]) != sorted(valid):
                bad.append(("max-tag-valid-set", "valid set differs: zerv %r vs grammar %r" % (r["valid"], valid), lst))
                continue
            if not valid:
                if r["max"] is not None:
                    bad.append(("max-tag-from-nothing", "max %r from no valid tag" % (r["max"],), lst))
                continue
            best = max(key(t) for t in valid)
            if r["max"] is None or r["max"] not in valid or key(r["max"]) != best:
                bad.append(("max-tag-not-maximal", "chose %r; maximal precedence is held by %r" % (r["max"], [t for t in valid if key(t) == best]), lst))
        if "max" in r1 and "max" in r2 and r1.get("max") and r2.get("max") and key(r1["max"]) != key(r2["max"]):
            bad.append(("max-tag-order-dependent", "%r vs %r" % (r1["max"], r2["max"]), tags))
    return dict(n=2 * len(lists), bad=bad)


def run(ctx):
    quick = ctx.tier == "quick"
    rng = ctx.sub_rng("u")
    uni = universe()
    ctx.count("small_universe_size", len(uni))
    sub = uni
    # build-metadata variants of a few members must be Equal to the bare version
    extra = [s + rng.choice(["+x", "+1", "+0.a", "+b-1"]) for s in rng.sample(sub, 300)]
    strs, bad = cmpcommon.all_pairs(ctx, "semver", sub + extra, key, "small_universe")
    large = random_large(rng, 5000 if quick else 45000) + boundary_families()
    # numeric identifiers beyond u64: zerv may refuse them (then they are not versions and are left out), but whatever it
    # accepts as a version must obey the precedence rules
    big = []
    for n in (2 ** 64, 2 ** 64 + 1, 10 ** 20 - 1, 10 ** 20, 10 ** 21 + 7, 10 ** 30):
        big += ["1.0.0-%d" % n, "1.0.0-rc.%d" % n, "1.0.0-%d.1" % n]
    pr0 = core.Probe(ctx.bins)
    rep0 = pr0.call(dict(op="parse_bulk", fmt="semver", strings=big))
    pr0.close()
    accepted_big = [s_ for s_, bit in zip(big, rep0.get("bits", "")) if bit == "1"]
    ctx.count("beyond_u64_versions_accepted_by_zerv", len(accepted_big))
    large += accepted_big
    strs2, bad2 = cmpcommon.all_pairs(ctx, "semver", large, key, "random_large")
    for strs_, bad_ in ((strs, bad), (strs2, bad2)):
        for sig, why, i, j, cell in bad_:
            if sig != "cmp":
                ctx.refute(sig, why, dict(kind="panic", row=strs_[i] if i is not None else None))
                continue
            if i is None:
                ctx.violations.append(("semver-order-differs", None))
                continue
            a, b = strs_[i], strs_[j]
            name = {"L": "Less", "E": "Equal", "G": "Greater", "!": "inconsistent operators", "?": "unparsable"}
            sig2 = "semver-operators-inconsistent" if cell[0] == "!" else ("semver-unparsable-in-matrix" if cell[0] == "?" else "semver-order-differs")
            ctx.refute(sig2, "cmp(%r, %r) = %s, SemVer 2.0.0 precedence says %s" % (a, b, name[cell[0]], name[cell[1]]), dict(kind="pair", a=a, b=b), observed=cell[0], expected=cell[1])
    ctx.distinct_extra += len(set(strs)) + len(set(strs2))
    # max tag
    lists = []
    pool_ = sub + large + ["v1.2", "1.2.3.4", "release-1", "1.0.0-", "01.0.0", "latest", ""]
    for _ in range(400 if quick else 30000):
        k = rng.choice([1, 2, 3, 5, 9])
        tags = [rng.choice(pool_) for _ in range(k)]
        perm = tags[:]
        rng.shuffle(perm)
        lists.append((tags, perm))
    res = core.pmap(work_max_tag, [(ctx.bins, l) for l in core.split_even(lists, 16)])
    for r in res:
        ctx.evaluations += r["n"]
        ctx.count("max_tag_calls", r["n"])
        for sig, why, lst in r["bad"]:
            ctx.refute(sig, why, dict(kind="max_tag", tags=lst))
    ctx.sample(dict(pair=[strs[0], strs[-1]], expected="Less"))
    ctx.sample(dict(pair=[strs2[len(strs2) // 2], strs2[len(strs2) // 2 + 1]], expected="Less or Equal"))
    ctx.sample(dict(max_tag_list=lists[0][0]))
    ctx.exhaustive = True
    ctx.rule = ("all ordered pairs (cmp, partial_cmp, ==, <, >, <=, >= must agree with each other and with the reference key) of %s the small "
                "universe {0,1,2,10}^3 x identifier lists of length <=3 over %r (%d versions) plus 300 build-metadata variants; all pairs of %d random "
                "large versions (u64 edges, long lists, build metadata, v prefix); find_max_version_tag on %d random tag lists, each also permuted. "
                "non-trivial = distinct versions entering a matrix" % ("", IDS, len(uni), len(large), len(lists)))
    ctx.assumptions = ["oracle: precedence key transcribed from SemVer 2.0.0 §11"]


def replay(ctx, doc):
    c = doc["case"]
    pr = core.Probe(ctx.bins)
    rc = 0
    if c.get("kind") == "pair":
        rep = pr.call(dict(op="cmp_matrix", fmt="semver", rows=[c["a"]], cols=[c["b"]]))
        ka, kb = key(c["a"]), key(c["b"])
        exp = "LEG"[(ka > kb) - (ka < kb) + 1]
        print("cmp(%r,%r) = %s expected %s" % (c["a"], c["b"], rep["rows"][0], exp))
        rc = 0 if rep["rows"][0] == exp else 1
    elif c.get("kind") == "max_tag":
        r = work_max_tag(ctx.bins, [(c["tags"], c["tags"])])
        print(r)
        rc = 1 if r["bad"] else 0
    pr.close()
    if rc:
        print("VIOLATION property=C10 replay=%s" % doc.get("_path", "?"))
    return rc
