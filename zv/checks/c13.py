"""C13 — zerv fails cleanly: it never panics and never prints a result on failure.

Observation: the real binary only (exit status, stdout, stderr), under (A) argument-vector
fuzzing over the real flag tables scraped from the binary's own --help and (B) enumeration of
every git invocation zerv makes failing in turn (PATH git shim).
Oracle: exit 0 => stdout is only the requested result, identical with and without -v /
RUST_LOG=trace, no log-shaped line; exit != 0 => stdout empty and stderr non-empty; never
exit 101 / a signal / 'panicked at'."""
import json
import os
import random
import re
import shutil

from .. import core, gen, gitmodel, objgen, ron
from ..refs import flow as F
from ..refs import semver as S
from . import c08, c09

LEVEL = "fault_enumeration"
MINIMUMS = (1500, 300)
LOGLINE = re.compile(r"^\S*\d{4}-\d\d-\d\dT\S+\s+(TRACE|DEBUG|INFO|WARN|ERROR)\b", re.M)
ANSI = re.compile(r"\x1b\[[0-9;]*m")     # the log lines are coloured even when piped
SUBCOMMANDS = ["version", "flow", "render", "check"]
MODES = ["exit128", "exit1", "exit1-silent", "ok-empty", "ok-garbage", "ok-utf8", "ok-huge", "ok-negative", "killed", "exit128-long0", "exit128-long1", "exit128-long2"]


def scrape_flags(bins):
    """{subcommand: [(flag, takes_value, optional_value, possible_values)]} from `zerv S --help`"""
    out = {}
    for sc in SUBCOMMANDS:
        r = core.run_zerv(bins, [sc, "--help"])
        if r["exit"] != 0:
            raise core.Inconclusive("cannot read `zerv %s --help`" % sc)
        flags = []
        cur = None
        for line in r["out"].splitlines():
            m = re.match(r"^\s{2,}(?:-(\w), )?--([a-z0-9-]+)(?:[ =](\[?<[^>]+>\]?(?:\.\.\.)?))?\s*$", line)
            if m:
                val = m.group(3)
                cur = dict(flag="--" + m.group(2), short=m.group(1), takes=val is not None, optional=bool(val and val.startswith("[")), values=None)
                flags.append(cur)
                continue
            m2 = re.search(r"\[possible values: ([^\]]+)\]", line)
            if m2 and cur is not None:
                cur["values"] = [x.strip() for x in m2.group(1).split(",")]
        out[sc] = [f for f in flags if f["flag"] not in ("--help", "--version")]
    return out


NUMS = ["-1", "0", "1", "7", "4294967295", "4294967296", "18446744073709551615", "18446744073709551616", "1" + "0" * 30, "1.5", "1e3", "0x10", "٣", "", " 5",
        "99999999999999", "253402300800", "8210266876800", "9223372036854775807", "9223372036854775808", "-9223372036854775808", "-9223372036854775809", "+5", "00"]
# Tera's own built-ins are reachable through --output-template just like zerv's functions: failing and edge uses of each family
TERA_BUILTINS = ["{{ get_random(start=5, end=1) }}", "{{ get_random(end=0) }}", "{{ 99999999999999 | date }}", "{{ bumped_timestamp | date }}", "{{ bumped_timestamp | date(format=\"%\") }}", "{{ bumped_timestamp | date(format=\"%Y-%m-%d %5\") }}", "{{ 1710511845 | date(format=\"%Q\") }}",
                 "{{ bumped_timestamp | date(format=\"%Y\", timezone=\"Asia/Kolkata\") }}", "{{ \"zz\" | int(base=1) }}",
                 "{{ \"zz\" | int(base=99) }}", "{{ \"12\" | int(base=36) }}", "{{ bumped_timestamp | date(format=\"%Q\") }}", "{{ \"x\" | date }}", "{{ -99999999999999999 | date }}",
                 "{{ \"2024-13-45\" | date }}", "{{ \"2024-01-01T00:00:00+99:00\" | date }}", "{{ bumped_timestamp | date(timezone=\"Nowhere/Land\") }}",
                 "{% macro a() %}{{ self::a() }}{% endmacro a %}{{ self::a() }}", "{{ range(end=5) }}", "{% for i in range(end=3) %}{{ i }}{% endfor %}",
                 "{{ range(start=5, end=1) }}", "{{ range(end=-1) }}", "{{ throw(message=\"x\") }}", "{{ get_env(name=\"NO_SUCH_VARIABLE_HERE\") }}",
                 "{{ get_env(name=\"NO_SUCH\", default=major) }}", "{{ bumped_branch | split(pat=\"\") }}", "{{ bumped_branch | split(pat=\"\") | length }}",
                 "{{ 1.5 | round(precision=99999) }}", "{{ 1.5 | round(method=\"nope\") }}", "{{ bumped_branch | truncate(length=18446744073709551615) }}",
                 "{{ bumped_branch | truncate(length=0) }}", "{{ bumped_branch | slice(start=-50, end=100) }}", "{{ [1, 2, 3] | slice(start=5, end=1) }}",
                 "{{ [1, 2] | join(sep=major) }}", "{{ 18446744073709551615 | filesizeformat }}", "{{ -1 | filesizeformat }}", "{{ bumped_branch | urlencode }}",
                 "{{ bumped_branch | json_encode }}", "{{ 1 | pluralize(singular=major) }}", "{{ 5 % 0 }}", "{{ 9223372036854775807 + 1 }}", "{{ 9223372036854775807 * 2 }}",
                 "{{ -9223372036854775807 - 2 }}", "{{ bumped_branch | replace(from=\"\", to=\"x\") }}", "{{ bumped_branch | first }}{{ bumped_branch | last }}",
                 "{{ [] | first }}", "{{ [3, 1] | sort | nth(n=9) }}", "{{ [1, [2]] | sort }}", "{{ {} | get(key=\"a\") }}", "{{ bumped_branch | wordcount }}{{ bumped_branch | title }}",
                 "{{ bumped_branch | trim_start_matches(pat=\"\") }}", "{{ bumped_branch | capitalize }}",
                 "{{ bumped_branch | striptags | escape | safe }}", "{{ bumped_branch | linebreaksbr }}", "{{ bumped_branch | indent(width=3) }}", "{{ bumped_branch | addslashes | slugify }}",
                 "{{ [1, 2, 3] | group_by(attribute=\"x\") }}", "{{ [1, 2] | map(attribute=\"x\") }}", "{{ [1, 2] | filter(attribute=\"x\", value=1) }}", "{{ [1, 2] | concat(with=major) | unique | reverse }}",
                 "{{ major | as_str | float | int | abs }}", "{{ bumped_branch | float }}", "{{ bumped_branch | int }}", "{{ major is divisibleby(0) }}", "{{ major is containing(1) }}",
                 "{{ bumped_branch is matching(\"(\") }}", "{{ bumped_branch is matching(\"(a*)*b\") }}", "{{ bumped_branch is starting_with(1) }}", "{{ major is odd }}{{ post is defined }}{{ post is number }}",
                 "{% include \"x\" %}", "{% extends \"x\" %}", "{% import \"x\" as y %}", "{% raw %}{{ x }}{% endraw %}", "{% filter upper %}{{ semver }}{% endfilter %}",
                 "{% set_global g = 1 %}{% for c in bumped_branch %}{% set_global g = g * 10 %}{% endfor %}{{ g }}", "{% for k, v in custom %}{{ k }}={{ v }};{% endfor %}",
                 "{% for c in bumped_branch %}{{ loop.index }}{% break %}{% endfor %}", "{% for c in major %}x{% endfor %}", "{{ loop.index }}", "{{ __tera_context }}",
                 "{% if major > \"a\" %}x{% endif %}", "{{ major ~ bumped_branch ~ none_such | default(value=\"d\") }}", "{{ semver_obj | json_encode(pretty=true) }}",
                 "{# comment #}{{- semver -}}", "{{ \"\\u{d800}\" }}", "{{ 'a' in 1 }}", "{{ not not major }}", "{{ (major) and (minor or patch) }}", "{{ 1 == 1.0 }}{{ \"1\" == 1 }}"]
TEMPLATES = TERA_BUILTINS + ["{{ semver }}", "{{ pep440 }}", "{{ major }}.{{ minor }}", "{{ bumped_branch }}", "{{ prefix(value=bumped_branch, length=3) }}",
             "{{ sanitize(value=bumped_branch, max_length=3) }}", "{{ sanitize(value=bumped_branch, separator='é', max_length=2) }}",
             "{{ format_timestamp(value=bumped_timestamp, format=\"%Q\") }}", "{{ format_timestamp(value=1, format=\"%\") }}",
             "{{ format_timestamp(value=99999999999999999) }}", "{{ hash_int(value=bumped_branch, length=0) }}", "{{ hash_int(value='x', length=30) }}",
             "{{ hash_int(value='x', length=1000000, allow_leading_zero=true) }}", "{{ hash(value='x', length=17) }}", "{{ hash(value='x', length=0) }}",
             "{{ hash(value=bumped_branch, length=16) }}", "{{ hash(value=bumped_branch, length=15) }}.{{ hash(value=bumped_commit_hash, length=64) }}",
             "{{ hash(value=custom, length=20) }}", "{{ hash_int(value=bumped_branch, length=19) }}-{{ hash_int(value=bumped_branch, length=20) }}-{{ hash_int(value=bumped_branch, length=21, allow_leading_zero=true) }}",
             "{{ prefix(value=bumped_branch, length=4294967296) }}", "{{ prefix(value=semver, length=0) }}", "{{ sanitize(value=bumped_branch, max_length=0) }}",
             "{{ prefix(value='ééééé', length=3) }}", "{{ prefix_if(value=post) }}", "{{ missing }}", "{{ 1 / 0 }}", "{% if %}", "{{", "}}", "{{ semver",
             "{{ custom.a.b.c }}", "{{ sanitize(value=bumped_branch, preset='nope') }}", "{{ sanitize(value='a b', preset='nope') }}", "{{ sanitize(value='a b', preset='dotted', separator='-') }}",
             "{{ sanitize(value=true) }}|{{ hash(value=false, length=4) }}|{{ prefix(value=true, length=2) }}", "{{ sanitize(value=[1, 2]) }}", "{{ hash(value=[major, 'x'], length=5) }}|{{ hash_int(value=semver_obj, length=5) }}",
             "{{ prefix(value=semver_obj, length=3) }}", "{{ prefix_if(value=[1], prefix='x') }}|{{ prefix_if(value=true, prefix='x') }}|{{ prefix_if(value=1.5, prefix='x') }}", "{{ sanitize(value=1.5) }}|{{ sanitize(value=-3) }}",
             "{{ format_timestamp(format=\"%Y\") }}", "{{ format_timestamp(value='12', format=\"%Y\") }}", "{{ format_timestamp(value=true) }}", "{{ format_timestamp(value=-1, format='compact_date') }}", "{{ hash(length=3) }}", "{{ prefix(length=3) }}", "{{ sanitize() }}",
             # empty strings in every string argument (an empty separator is accepted today: it must still come back)
             "{{ sanitize(value='feature/x-001', separator='') }}", "{{ sanitize(value=bumped_branch, separator='', max_length=4) }}", "{{ sanitize(value='', separator='') }}|{{ sanitize(value='--', separator='', lowercase=true) }}",
             "{{ prefix_if(value='x', prefix='') }}|{{ prefix(value='', length=3) }}|{{ hash(value='', length=3) }}|{{ hash_int(value='', length=3) }}", "{{ format_timestamp(value=1, format='') }}", "{{ sanitize(value='a b', preset='') }}", "{{ sanitize(value=1, preset='uint', separator='x') }}", "none", "NULL",
             "", "   ", "{{ semver }}\n{{ pep440 }}", "{{ 99999999999999999999 }}", "{{ major + 18446744073709551615 }}", "{% set x = major %}{{ x }}",
             "{{ bumped_branch | upper | truncate(length=2) }}", "{{ bumped_timestamp | date(format=\"%Y\") }}", "{{ semver_obj.docker }}", "{{ dirty }}{{ distance }}"]
RONS = ["(core:[var(Major)], extra_core:[], build:[])", "(core:[], extra_core:[], build:[])", "(core:[var(Minor), var(Major)], extra_core:[], build:[])",
        "(core:[var(ts(\"%Q\"))], extra_core:[], build:[])", "(core:[var(ts(\"QQ\"))], extra_core:[], build:[])", "(core:[str(\"é日本\"), uint(18446744073709551615)], extra_core:[var(Dev)], build:[var(custom(\"a.b\"))])",
        "(", "[]", "", "()", "(core:[uint(-1)])", "(core:[var(Major)], extra_core:[var(Epoch), var(Epoch)], build:[])", "garbage", "(core: [var(BumpedBranch), var(Dirty)], extra_core: [], build: [var(ts(\"compact_datetime\"))])"]
RONS += ["(core:[var(Major), var(Minor), var(Patch)], extra_core:[var(PreRelease), var(Post)], build:[var(BumpedBranch)], precedence_order:[Core])",
         "(core:[var(Major), var(Minor), var(Patch)], extra_core:[var(Epoch), var(PreRelease), var(Post), var(Dev)], build:[], precedence_order:[])",
         "(core:[var(Major), var(Minor), var(Patch)], extra_core:[var(Epoch), var(PreRelease), var(Post), var(Dev)], build:[str(\"b\")], precedence_order:[Build, ExtraCore, Dev, Post, PreReleaseNum, PreReleaseLabel, Core, Patch, Minor, Major, Epoch])",
         "(core:[var(Major), uint(3), str(\"x\")], extra_core:[var(Post)], build:[], precedence_order:[Major, Post])",
         "(core:[var(Major)], extra_core:[], build:[], precedence_order:[Major, Major, Nope])"]
RULES = ["[]", "[(pattern: \"*\", pre_release_label: alpha, post_mode: commit)]", "[(pattern: \"x\", pre_release_label: rc, post_mode: tag)]",
         "[(pattern: \"x/*\", pre_release_label: rc, pre_release_num: 1, post_mode: tag)]", "[(pattern: \"é/*\", pre_release_label: beta, post_mode: commit)]",
         "[(pattern: \"\", pre_release_label: beta, pre_release_num: 4294967296, post_mode: commit)]", "(", "", "[(pattern: \"a\")]", "nonsense",
         "[(pattern: \"/*\", pre_release_label: alpha, post_mode: commit)]"]
JSONS = ["{}", "{\"a\": 1}", "{\"a\": {\"b\": [1, 2]}}", "[1]", "null", "\"s\"", "{", "", "{\"a\": 1e999}", "{\"é\": \"日本\"}", "{\"a\":\"\\ud800\"}"]


def rand_version_string(rng):
    k = rng.random()
    if k < 0.3:
        return c08.mutate(c08.gen_version(rng), rng)
    if k < 0.55:
        return c09.mutate(c09.gen_struct(rng), rng)
    if k < 0.7:
        lab = rng.choice(["post", "dev", "epoch", "alpha", "rc", "beta"])
        return "1.0.0-" + ".".join(rng.choice([lab, "x", "1", lab, "0", "post", "dev"]) for _ in range(rng.randrange(1, 6)))
    if k < 0.8:
        return rng.choice(["", " ", "v", "1", "1.2", "1.2.3.4.5.6.7.8.9", "0!0", "1!", "1.0+" + "a" * 300, "9" * 50 + ".0.0", "1.0.0-" + "9" * 30, "--", "-1.2.3", "+"])
    return gen.hostile_text(rng).replace("\x00", "")


def rand_value(rng, flag):
    f = flag["flag"]
    if flag["values"] and rng.random() < 0.8:
        v = rng.choice(flag["values"])
        k = rng.random()
        return v.upper() if k < 0.08 else v.capitalize() if k < 0.14 else (v + " ") if k < 0.16 else v
    if f in ("--output-template",):
        if rng.random() < 0.04:
            n = rng.choice([200, 2000, 20000, 30000])
            return rng.choice(["{{ " + "(" * n + "1" + ")" * n + " }}", "{{ 1" + " + 1" * n + " }}", "{{ major" + " | abs" * min(n, 15000) + " }}",
                               "{% if true %}" * min(n, 4000) + "x" + "{% endif %}" * min(n, 4000), "{{ " + "[" * n + "]" * n + " }}", "{{ " + "not " * n + "true }}"])
        return rng.choice(TEMPLATES)
    if f == "--schema-ron":
        return rng.choice(RONS) if rng.random() < 0.8 else ron.schema_to_ron(objgen.rand_schema(rng, ascii_only=False))
    if f == "--branch-rules":
        return rng.choice(RULES)
    if f == "--custom":
        return rng.choice(JSONS)
    if f == "--schema":
        return rng.choice(["standard", "calver", "standard-base-prerelease-post-dev-context", "calver-context", "nope", "", "STANDARD"])
    if f in ("--directory",):
        return rng.choice(["/", "/nonexistent", ".", "/tmp", "/dev/null", "é"])
    if f == "--tag-version":
        return rand_version_string(rng) if rng.random() < 0.6 else rng.choice(["1.2.3", "v1.0.0-rc.1", "1.0a1", "2!1.0.post1", "18446744073709551615.0.0"])
    if f in ("--bumped-branch", "--bumped-commit-hash", "--output-prefix", "--pre-release-label", "--bump-pre-release-label"):
        if f.endswith("label") and rng.random() < 0.6:
            return rng.choice(["alpha", "beta", "rc", "none", "null", "Alpha", "{{ bumped_branch }}"])
        return gen.hostile_text(rng).replace("\x00", "") if rng.random() < 0.7 else rng.choice(["main", "gabcdef12", "é" * 9, "1234567" + "é"])
    if f in ("--core", "--extra-core", "--build", "--bump-core", "--bump-extra-core", "--bump-build"):
        return rng.choice(["0", "1", "-1", "~1", "9", "0=5", "0=x", "-1=7", "~1=4294967296", "0=-1", "=", "0==", "x=1", "0={{ major }}", "0={{", "1=é", "99999999999999999999=1", "~0=1"])
    if rng.random() < 0.15:
        return rng.choice(["{{ major }}", "{{ distance }}", "{{ 1 + 1 }}", "{{ bumped_timestamp }}", "{{", "none"])
    return rng.choice(NUMS)


def rand_stdin(rng):
    k = rng.random()
    if k < 0.45:
        return None
    if k < 0.55:
        return rng.choice(["", "", " ", "\n", " \n\t ", "\x00", "()", "1.2.3", "1.2.3\n"])
    if k < 0.8:
        return ron.zerv_to_ron(objgen.rand_schema(rng, ascii_only=False), objgen.rand_vars(rng, ascii_only=False, bound=2 ** 64))
    if k < 0.92:
        from .c12 import textual_mutant
        return textual_mutant(ron.zerv_to_ron(objgen.rand_schema(rng, ascii_only=True), objgen.rand_vars(rng, ascii_only=True)), rng)
    return b"\xff\xfe\x00binary\x80" + bytes(rng.randrange(256) for _ in range(20))


def gen_argv(rng, flags):
    sc = rng.choice(["version", "version", "flow", "flow", "render", "check"])
    argv = [sc]
    tbl = flags[sc]
    n = rng.choice([0, 1, 2, 3, 4, 6])
    if sc in ("version", "flow") and rng.random() < 0.7:
        argv += ["--source", rng.choice(["none", "none", "stdin"])]
        if rng.random() < 0.7:
            argv += ["--tag-version", rng.choice(["1.2.3", "v0.9.10-rc.1", "1.0a1.post2", rand_version_string(rng)])]
    for _ in range(n):
        fl = rng.choice(tbl)
        if fl["flag"] in ("--verbose",):
            continue
        if not fl["takes"]:
            argv.append(fl["flag"])
        else:
            if fl["optional"] and rng.random() < 0.4:
                argv.append(fl["flag"])
            else:
                v = rand_value(rng, fl)
                if rng.random() < 0.5:
                    argv.append("%s=%s" % (fl["flag"], v))
                else:
                    argv += [fl["flag"], v]
    if sc in ("render", "check"):
        v = rand_version_string(rng)
        if rng.random() < 0.8:
            argv += ["--", v] if rng.random() < 0.7 else [v]
    if rng.random() < 0.03:
        argv = [rng.choice(["--llm-help", "--help", "--version", "-h", "-V", "help", "nope", ""])]
    return [a for a in argv if "\x00" not in a]


def _template_of(argv):
    tpl = ""
    for i, a in enumerate(argv):
        if a == "--output-template" and i + 1 < len(argv):
            tpl = argv[i + 1]
        elif a.startswith("--output-template="):
            tpl = a.split("=", 1)[1]
    return tpl


def judge(r, argv, st=None):
    """-> list of (sig, why)"""
    out = []
    if r.get("spawn_error"):
        return out
    if r["timeout"]:
        return [("__timeout__", "")]
    err, so = r["err"], r["out"]
    code = r["exit"]
    if code == 101 or "panicked at" in err:
        m = re.search(r"panicked at ([^\s:]+):\d+", err)
        loc = m.group(1) if m else "?"
        third_party = None
        m3 = re.search(r"/registry/src/[^/]+/(.+)$", loc)
        if m3:
            third_party = loc = m3.group(1)           # e.g. rand-0.8.5/src/rng.rs
        elif loc.startswith("/rustc/") or loc.startswith("library/"):
            third_party = loc = loc[loc.find("library/"):]
        else:
            loc = loc[loc.find("src/"):] if "src/" in loc else loc
        first = err.strip().splitlines()[0][:200] if err.strip() else ""
        if third_party:
            # a panic raised inside the template engine's own built-ins (not zerv code): classified by the built-in the template uses
            tpl = _template_of(argv)
            # (the built-in the template uses, where that built-in is known to panic): a panic anywhere else is not excused by the template's wording
            for name, pat, where in (("get_random", "get_random(", "rand-"), ("date", "| date", "tera-"), ("int", "| int(", "library/core/src/num")):
                if pat in tpl and loc.startswith(where):
                    out.append(("panic-in-tera-builtin-" + name, "exit %s at %s: %s (template %r)" % (code, loc, first, tpl[:120])))
                    return out
        out.append(("panic@" + loc, "exit %s, stderr: %s" % (code, first)))
        return out
    if (code is not None and code < 0) or code == 134:
        tpl = _template_of(argv)
        if "memory allocation of" in err and "range(" in tpl:
            out.append(("abort-memory-exhaustion-in-tera-range", "allocation failure abort (exit %s) under the %d GiB ceiling: %s (template %r)" % (code, core.MEM_LIMIT >> 30, err.strip()[:100], tpl[:100])))
            return out
        if "has overflowed its stack" in err:
            if "self::" in tpl and "macro" in tpl and len(tpl) <= 10000:
                out.append(("abort-stack-overflow-in-recursive-template-macro", "stack overflow abort (exit %s) on the self-recursive macro template %r" % (code, tpl[:120])))
                return out
            if len(tpl) > 10000:
                # recorded finding: Tera's recursive-descent parser has no depth limit
                out.append(("abort-stack-overflow-in-template-parser", "stack overflow abort (exit %s) on a %d-character template" % (code, len(tpl))))
                return out
            out.append(("abort-stack-overflow", "stack overflow abort (exit %s): %s" % (code, err.strip()[:160])))
            return out
        out.append(("killed-by-signal", "terminated by signal %s" % (-code if code < 0 else code)))
        return out
    if code == 0:
        if LOGLINE.search(ANSI.sub("", so)):
            out.append(("log-line-on-stdout", "log-shaped line on stdout: %r" % so[:200]))
    else:
        if so:
            out.append(("stdout-on-failure", "exit %s but stdout has %r" % (code, so[:200])))
        if not err.strip():
            out.append(("silent-failure", "exit %s with empty stderr" % code))
    return out


def work_fuzz(bins, seed, n, flags):
    rng = random.Random(seed)
    bad = []
    st = {"runs": 0, "exit0": 0, "exit_nonzero": 0, "clap_rejections": 0, "verbose_pairs": 0, "timeouts": 0}
    distinct = set()
    timed_out = []
    env_plain = core.base_env(bins)
    env_trace = core.base_env(bins, extra={"RUST_LOG": "trace"})
    samples = []
    for _ in range(n):
        argv = gen_argv(rng, flags)
        if argv and rng.random() < 0.03:
            # an argument that is not valid UTF-8 (a lone surrogate here is passed to the process as the byte 0xff / 0xc3)
            i = rng.randrange(len(argv))
            argv[i] = rng.choice([argv[i] + "\udcff", "\udcc3" + argv[i], "\udcff", "caf\udce9", "a\udcffb"])
            st["non_utf8_argv"] = st.get("non_utf8_argv", 0) + 1
        stdin = rand_stdin(rng)
        r = core.run_zerv(bins, argv, stdin=stdin, env=env_plain, timeout=20)
        st["runs"] += 1
        key = hash((tuple(argv), stdin if not isinstance(stdin, bytes) else stdin.hex()))
        distinct.add(key)
        case = dict(kind="fuzz", argv=argv, stdin=stdin if not isinstance(stdin, bytes) else stdin.decode("latin-1"), stdin_is_bytes=isinstance(stdin, bytes))
        res = judge(r, argv)
        if res and res[0][0] == "__timeout__":
            st["timeouts"] += 1
            timed_out.append(case)
            continue
        for sig, why in res:
            bad.append((sig, why, case))
        if r["exit"] == 0:
            st["exit0"] += 1
            sc = argv[0] if argv else ""
            toks = " ".join(argv).replace("=", " ").split()
            ofmt = [toks[i + 1].lower() for i, t_ in enumerate(toks[:-1]) if t_ == "--output-format"]
            single = sc in ("version", "flow", "render") and not any(a.startswith("--output-template") for a in argv) and all(f_ in ("semver", "pep440") for f_ in ofmt)
            if single and not any(a in ("--help", "-h") for a in argv) and not any("\n" in a or "\r" in a for a in argv):
                body = r["out"]
                if body.count("\n") != 1 or not body.endswith("\n"):
                    bad.append(("stdout-not-single-line", "stdout is %r" % body[:200], case))
            if len(samples) < 2:
                samples.append(dict(argv=argv, exit=0, stdout=r["out"][:120]))
        else:
            st["exit_nonzero"] += 1
            if r["exit"] == 2 or "Usage:" in r["err"]:
                st["clap_rejections"] += 1
        # -v / RUST_LOG=trace must not change stdout (nor move diagnostics there)
        if (r["exit"] == 0 or rng.random() < 0.15) and argv and argv[0] in SUBCOMMANDS:
            how = rng.choice(["-v", "trace", "both"])
            argv2 = list(argv)
            if how in ("-v", "both"):
                argv2 = [argv[0], "-v"] + argv[1:] if "--" not in argv else argv[:argv.index("--")] + ["-v"] + argv[argv.index("--"):]
            r2 = core.run_zerv(bins, argv2, stdin=stdin, env=env_trace if how in ("trace", "both") else env_plain, timeout=20)
            st["runs"] += 1
            st["verbose_pairs"] += 1
            if r2["timeout"]:
                st["timeouts"] += 1
                continue
            case2 = dict(case)
            case2["argv_verbose"] = argv2
            case2["how"] = how
            for sig, why in judge(r2, argv2):
                bad.append((sig, "[%s] %s" % (how, why), case2))
            if r2["exit"] != r["exit"] or r2["out"] != r["out"]:
                bad.append(("verbose-changes-stdout", "with %s: exit %s -> %s, stdout %r -> %r" % (how, r["exit"], r2["exit"], r["out"][:120], r2["out"][:120]), case2))
    return dict(bad=bad, st=st, distinct=len(distinct), samples=samples, timed_out=timed_out)


def judge_termination(bins, cases):
    """"terminates": the runs that hit the 20 s watchdog while 16 workers were busy are repeated one at a time with a 150 s ceiling;
    only a run that is still going then (or dies of memory exhaustion) is judged, anything that finishes is judged like any other run"""
    bad = []
    n = 0
    # one representative per template / argument vector, and the runs that are not the recorded Tera `range` loop first: the twelve slots must not
    # all go to one known cause while another hang waits behind them
    seen, uniq = set(), []
    for case in cases:
        a = case["argv"]
        key = a[a.index("--output-template") + 1] if "--output-template" in a and a.index("--output-template") + 1 < len(a) else next((x for x in a if x.startswith("--output-template=")), None) or tuple(a)
        if key not in seen:
            seen.add(key)
            uniq.append(case)
    uniq.sort(key=lambda c: any("range(" in x for x in c["argv"]))
    for case in uniq[:12]:
        stdin = case["stdin"].encode("latin-1") if case.get("stdin_is_bytes") else case["stdin"]
        r = core.run_zerv(bins, case["argv"], stdin=stdin, env=core.base_env(bins), timeout=150)
        n += 1
        if r["timeout"]:
            sig = "does-not-terminate"
            if any("step_by=0" in a for a in case["argv"]):
                sig = "does-not-terminate-tera-range-step-0"
            bad.append((sig, "still running after 150 s on an idle machine: zerv %r" % (case["argv"],), case))
        else:
            for sig, why in judge(r, case["argv"]):
                bad.append((sig, "[serial re-run] " + why, case))
    return bad, n


# ---------------------------------------------------------------------------
# template-function sweep: every documented function x argument grid x many values (binary)
# ---------------------------------------------------------------------------
def sweep_templates():
    t = []
    for ln in (0, 1, 7, 15, 16, 17, 32, 64, 4294967296):
        t.append("{{ hash(value=bumped_branch, length=%d) }}" % ln)
    for ln in (0, 1, 10, 19, 20, 21, 40, 65535, 65536):
        for lz in ("true", "false"):
            t.append("{{ hash_int(value=bumped_branch, length=%d, allow_leading_zero=%s) }}" % (ln, lz))
    for ln in (0, 1, 3, 100):
        t.append("{{ prefix(value=bumped_branch, length=%d) }}" % ln)
    for args in ("", ", preset='semver'", ", preset='pep440'", ", preset='uint'", ", separator='-'", ", separator='_', lowercase=true, max_length=4",
                 ", keep_zeros=true, max_length=1", ", max_length=0", ", separator='ab', max_length=3", ", separator=''", ", separator='', max_length=2"):
        t.append("{{ sanitize(value=bumped_branch%s) }}" % args)
    for f in ("%Y-%m-%d", "compact_date", "compact_datetime", "%Q", "%", "%%", "%5", "%Y%", "%-", "%:z %Z %s %f %+", "%c %x %X %D %F %T %R %r %v %e %k %l %P %p %u %w %U %W %G %g %V %C %h %n %t", ""):
        t.append("{{ format_timestamp(value=bumped_timestamp, format=\"%s\") }}" % f)
    t.append("{{ prefix_if(value=bumped_branch, prefix='+') }}{{ prefix_if(value=post, prefix='-') }}")
    return t


def work_sweep(bins, branches, timestamps, hash_only=False):
    env = core.base_env(bins)
    bad = []
    timed_out = []
    n = 0
    tpls = sweep_templates()
    if hash_only:
        tpls = [t for t in tpls if "hash" in t]
    for i, b in enumerate(branches):
        ts = timestamps[i % len(timestamps)]
        for tp in tpls:
            argv = ["version", "--source", "none", "--tag-version", "1.0.0", "--bumped-branch", b, "--bumped-timestamp", str(ts), "--output-template", tp]
            r = core.run_zerv(bins, argv, env=env, timeout=20)
            n += 1
            case = dict(kind="fuzz", argv=argv, stdin=None, stdin_is_bytes=False)
            for sig, why in judge(r, argv):
                if sig != "__timeout__":
                    bad.append((sig, why, case))
                elif len(timed_out) < 4:
                    timed_out.append(case)
    return dict(n=n, bad=bad, timed_out=timed_out)


def work_deep(bins, argv, stdin):
    r = core.run_zerv(bins, argv, stdin=stdin, timeout=120)
    return judge(r, argv)


# ---------------------------------------------------------------------------
# git fault enumeration
# ---------------------------------------------------------------------------
def build_repo(path, rng):
    repo = gitmodel.Repo(path, rng)
    repo.commit()
    repo.tag("v1.2.3", annotated=rng.random() < 0.5)
    if rng.random() < 0.7:
        repo.branch(rng.choice(["feature/x", "develop", "release/3"]))
        repo.checkout(sorted(b for b in repo.branches if b != "main")[0])
    for _ in range(rng.randrange(0, 3)):
        repo.commit()
    if rng.random() < 0.5:
        repo.tag("1.3.0-rc.1")
        repo.tag("not-a-version")
    if rng.random() < 0.5:
        repo.commit()
    if rng.random() < 0.5:
        repo.make_dirty(rng.choice(["modified", "unmerged", "untracked_in_subdir"]))
    return repo


ALL_CMDS = (["version"], ["flow"], ["version", "--output-format", "zerv"], ["flow", "--output-format", "pep440", "--schema", "standard-context"])


# diagnostics a real git prints (remote helpers, file system, object store); zerv translates some of them by substring
GIT_MSGS = [
    "fatal: Authentication failed for 'https://example.invalid/r.git/'\n",
    "git@example.invalid: Permission denied (publickey).\nfatal: Could not read from remote repository.\n",
    "ssh: Could not resolve hostname example.invalid: Name or service not known\nfatal: Could not read from remote repository.\n",
    "fatal: unable to access 'https://example.invalid/': Failed to connect: Network is unreachable\n",
    "error: could not lock config file .git/config: Permission denied\n",
    "fatal: shallow file has changed since we read it\n",
    "error: object file .git/objects/ab/cdef is empty\nfatal: loose object abcdef (stored in .git/objects/ab/cdef) is corrupt\n",
    "fatal: bad object HEAD\n",
    "fatal: ambiguous argument 'HEAD': unknown revision or path not in the working tree.\n",
    "warning: refname 'v1.0.0' is ambiguous.\n",
    "hint: \xe6\x97\xa5\xe6\x9c\xac\xe8\xaa\x9e corrupt shallow Permission denied publickey %s {} {{ }}\n",
]


def work_faults(bins, seed, idx, tmp, part=None):
    """part: None = everything; 0..3 = only that command (part 0 also does layouts and environment faults)"""
    rng = random.Random("%s/%d" % (seed, idx))
    home = os.path.join(tmp, "f%d_%s" % (idx, part))
    path = os.path.join(home, "repo")
    os.makedirs(home, exist_ok=True)
    bad = []
    st = {"fault_runs": 0, "fault_exit0": 0, "fault_exit_nonzero": 0, "git_calls_clean_run": 0}
    calls_seen = set()
    pairs = 0
    try:
        repo = build_repo(path, rng)
        for ci, cmd in enumerate(ALL_CMDS):
            if part is not None and ci != part:
                continue
            log = os.path.join(home, "git.log")
            if os.path.exists(log):
                os.remove(log)
            env = core.base_env(bins, home=home, gitlog=log, use_gitshim=True)
            argv = cmd + ["-C", path]
            r0 = core.run_zerv(bins, argv, env=env)
            n = 0
            if os.path.exists(log):
                lines = open(log).read().splitlines()
                n = len(lines)
                for l in lines:
                    try:
                        calls_seen.add(" ".join(json.loads(l)["argv"][:2]))
                    except Exception:
                        pass
            st["git_calls_clean_run"] += n
            case0 = dict(kind="fault", seed=seed, idx=idx, cmd=cmd, k=0, mode="none")
            for sig, why in judge(r0, argv):
                bad.append((sig, "[no fault] " + why, case0))
            if r0["exit"] != 0:
                bad.append(("clean-run-failed", "zerv failed in a healthy repository: %s" % r0["err"][:200], case0))
                continue
            for k in range(1, n + 1):
                # every call fails in every generic mode; the realistic diagnostics rotate so that each (sub-command, text) pair comes up across repositories
                msgs = [("msg", GIT_MSGS[(k + idx + j) % len(GIT_MSGS)]) for j in (0, 4)] + [("warn", GIT_MSGS[(k + 2 * idx + ci) % len(GIT_MSGS)])]
                for mode in MODES + msgs:
                    if os.path.exists(log):
                        os.remove(log)
                    gmsg = None
                    if isinstance(mode, tuple):
                        mode, gmsg = mode
                        st["git_diagnostic:%s:%s" % (mode, gmsg.split("\n")[0][:40])] = st.get("git_diagnostic:%s:%s" % (mode, gmsg.split("\n")[0][:40]), 0) + 1
                    envf = core.base_env(bins, home=home, gitlog=log, gitfail="%d:%s" % (k, mode), use_gitshim=True,
                                         extra={"ZERV_VERIF_GIT_MSG": gmsg} if gmsg else None)
                    v = rng.random() < 0.2
                    r = core.run_zerv(bins, (cmd[:1] + ["-v"] + cmd[1:] if v else cmd) + ["-C", path], env=envf)
                    st["fault_runs"] += 1
                    pairs += 1
                    case = dict(kind="fault", seed=seed, idx=idx, cmd=cmd, k=k, mode=mode, verbose=v, git_msg=gmsg)
                    res = judge(r, argv)
                    if res and res[0][0] == "__timeout__":
                        continue
                    for sig, why in res:
                        bad.append((sig, "[git call %d fails with %s] %s" % (k, mode, why), case))
                    if r["exit"] == 0:
                        st["fault_exit0"] += 1
                        body = r["out"]
                        if "--output-format" not in cmd or "pep440" in cmd:
                            if body.count("\n") != 1:
                                bad.append(("stdout-not-single-line", "[git call %d fails with %s] stdout %r" % (k, mode, body[:200]), case))
                    else:
                        st["fault_exit_nonzero"] += 1
        if part not in (None, 0):
            return dict(bad=bad, st=st, calls=sorted(calls_seen), pairs=pairs)
        # special repository layouts: the result must still be the only thing on stdout
        import subprocess as _sp
        genv = gitmodel.git_env(home)
        repo.clean()
        if not repo.tags_at(repo.head_cid()):
            repo.tag("v9.9.9")
        layouts = []
        shallow = os.path.join(home, "shallow")
        if _sp.run([core.REAL_GIT, "clone", "-q", "--depth", "1", "file://" + path, shallow], env=genv, capture_output=True).returncode == 0:
            layouts.append(("shallow-clone", shallow))
            st["shallow_file_present"] = st.get("shallow_file_present", 0) + (1 if os.path.exists(os.path.join(shallow, ".git", "shallow")) else 0)
        shallow2 = os.path.join(home, "shallow-notags")
        if _sp.run([core.REAL_GIT, "clone", "-q", "--depth", "1", "--no-tags", "file://" + path, shallow2], env=genv, capture_output=True).returncode == 0:
            layouts.append(("shallow-clone-no-tags", shallow2))
        wt = os.path.join(home, "linked-worktree")
        if _sp.run([core.REAL_GIT, "-C", path, "worktree", "add", "-q", "--detach", wt], env=genv, capture_output=True).returncode == 0:
            layouts.append(("linked-worktree", wt))
        for name, d in layouts:
            for cmd in (["version"], ["flow"], ["version", "-v"], ["flow", "--output-format", "pep440"]):
                r = core.run_zerv(bins, cmd + ["-C", d], env=core.base_env(bins, home=home))
                st["fault_runs"] += 1
                st["layout:" + name] = st.get("layout:" + name, 0) + 1
                case = dict(kind="layout", name=name, cmd=cmd, seed=seed, idx=idx)
                for sig, why in judge(r, cmd):
                    bad.append((sig, "[%s] %s" % (name, why), case))
                if r["exit"] == 0:
                    body = r["out"]
                    line = body[:-1] if body.endswith("\n") else body
                    from ..refs import pep440 as _P
                    okv = (_P.parse(line) is not None) if "pep440" in cmd else (S.parse(line, allow_v=False) is not None)
                    if body.count("\n") != 1 or not okv:
                        bad.append(("stdout-not-only-the-result", "[%s] `%s` printed %r" % (name, " ".join(cmd), body[:200]), case))
        # environment-level faults
        envs = [("git-missing", core.base_env(bins, home=home, extra={"PATH": os.path.join(home, "emptybin")}), path),
                ("not-a-repository", core.base_env(bins, home=home), home),
                ("repo-without-commits", core.base_env(bins, home=home), os.path.join(home, "empty")),
                ("dot-git-is-a-file", core.base_env(bins, home=home), os.path.join(home, "gitfile")),
                ("corrupt-HEAD", core.base_env(bins, home=home), os.path.join(home, "corrupt"))]
        os.makedirs(os.path.join(home, "emptybin"), exist_ok=True)
        os.makedirs(os.path.join(home, "empty"), exist_ok=True)
        import subprocess
        subprocess.run([core.REAL_GIT, "init", "-q", "-b", "main", os.path.join(home, "empty")], env=gitmodel.git_env(home), capture_output=True)
        os.makedirs(os.path.join(home, "gitfile"), exist_ok=True)
        with open(os.path.join(home, "gitfile", ".git"), "w") as f:
            f.write("gitdir: /nonexistent/\xe9\n")
        shutil.copytree(path, os.path.join(home, "corrupt"))
        with open(os.path.join(home, "corrupt", ".git", "HEAD"), "w") as f:
            f.write("ref: refs/heads/\xff\xfe nonsense\n")
        for name, env, d in envs:
            for cmd in (["version"], ["flow"], ["version", "--output-format", "zerv", "-v"]):
                r = core.run_zerv(bins, cmd + ["-C", d], env=env)
                st["fault_runs"] += 1
                case = dict(kind="envfault", name=name, cmd=cmd, seed=seed, idx=idx)
                for sig, why in judge(r, cmd):
                    bad.append((sig, "[%s] %s" % (name, why), case))
                if r["exit"] == 0 and name != "corrupt-HEAD":
                    bad.append(("version-without-repository", "[%s] zerv printed %r" % (name, r["out"][:100]), case))
    except gitmodel.GitError as e:
        raise core.Inconclusive("fault generator: %s" % e)
    finally:
        shutil.rmtree(home, ignore_errors=True)
    return dict(bad=bad, st=st, calls=sorted(calls_seen), pairs=pairs)


def run(ctx):
    quick = ctx.tier == "quick"
    flags = scrape_flags(ctx.bins)
    for sc in SUBCOMMANDS:
        ctx.count("flags_scraped_" + sc, len(flags[sc]))
    if len(flags["version"]) < 30 or len(flags["flow"]) < 15:
        raise core.Inconclusive("flag scraping found too few flags: %r" % {k: len(v) for k, v in flags.items()})
    per = 150 if quick else 16000
    slow = []
    for r in core.pmap(work_fuzz, [(ctx.bins, "%s/%d/z%d" % (ctx.prop, ctx.seed, i), per, flags) for i in range(32)]):
        ctx.merge_counts(r["st"])
        ctx.evaluations += r["st"]["runs"]
        ctx.distinct_extra += r["distinct"]
        slow += r["timed_out"]
        for sig, why, case in r["bad"]:
            ctx.refute(sig, why, case)
        for s in r["samples"][:1]:
            ctx.sample(s, cap=3)
    from . import c04
    brng = ctx.sub_rng("sweep")
    names = list(c04.BRANCHES) + [c04.rand_branch(brng) for _ in range(40 if quick else 1500)]
    names = [b for b in names if "\x00" not in b]
    stamps = [0, 1, 1710511845, 2 ** 31, 2 ** 33, 253402300799, 253402300800, 2 ** 40, 2 ** 62, 2 ** 63 - 1]
    many = sorted(set(["release/%d" % i for i in range(60)] + ["feature/%d" % i for i in range(60)] + ["v%d" % i for i in range(40)] +
                      ["".join(brng.choice("abcdefghijklmnopqrstuvwxyz0123456789-_/.") for _ in range(brng.randrange(1, 14))) for _ in range(140 if quick else 3000)]))
    jobs = [(ctx.bins, p, stamps, False) for p in core.split_even(names, 16)] + [(ctx.bins, p, stamps, True) for p in core.split_even(many, 16)]
    ctx.count("template_sweep_distinct_values", len(set(names)) + len(many))
    for r in core.pmap(work_sweep, jobs):
        ctx.evaluations += r["n"]
        ctx.count("template_function_sweep_runs", r["n"])
        slow += r.get("timed_out", [])
        ctx.distinct_extra += r["n"]
        for sig, why, case in r["bad"]:
            ctx.refute(sig, why, case)
    # resource-exhaustion probes: very deep / very long templates, RON and JSON documents
    deep = []
    for n in (1000, 20000, 30000):
        deep.append((["render", "1.2.3", "--output-template", "{{ " + "(" * n + "1" + ")" * n + " }}"], None))
        deep.append((["version", "--source", "none", "--tag-version", "1.0.0", "--output-template", "{{ 1" + " + 1" * n + " }}"], None))
        deep.append((["version", "--source", "stdin"], "(schema: (core: [" + "(" * n + "], extra_core: [], build: []), vars: ())"))
        deep.append((["version", "--source", "stdin"], "(schema: (core: [var(Major)], extra_core: [], build: []), vars: (major: Some(1), custom: " + "[" * n + "]" * n + "))"))
        deep.append((["version", "--source", "none", "--tag-version", "1.0.0", "--custom", "[" * min(n, 20000) + "]" * min(n, 20000)], None))
        deep.append((["version", "--source", "none", "--tag-version", "1.0.0", "--schema-ron", "(core: [" + "str(\"a\"), " * min(n, 5000) + "], extra_core: [], build: [])"], None))
        deep.append((["check", "1.0.0-" + "a." * min(n, 30000) + "a"], None))
        deep.append((["render", "1.0+" + "a." * min(n, 4000) + "a", "--output-format", "semver"], None))   # (quadratic in the number of segments: kept small)
    # enumerated options in other letter cases, and custom ts("%...") schema components with good and malformed strftime strings
    for sc, flag, vals in (("flow", "--post-mode", ["tag", "commit"]), ("flow", "--pre-release-label", ["alpha", "beta", "rc"]), ("version", "--source", ["none"]),
                           ("version", "--output-format", ["semver", "pep440", "zerv"]), ("version", "--input-format", ["auto", "semver", "pep440"])):
        for v in vals:
            for vv in (v.upper(), v.capitalize(), v[:1].upper() + v[1:].upper()[:1] + v[2:]):
                deep.append(([sc, "--source", "none", "--tag-version", "1.2.3", "--distance", "2", flag, vv] if flag != "--source" else [sc, "--source", vv, "--tag-version", "1.2.3"], None))
    for fmt_ in ("%Y", "%Y-%m-%d", "%", "%Y%", "%Q", "%-", "%d.%", "%5", "%:", "%%", "%é", "%Y%m%d%H%M%S%f%z%Z%s", "%c%x%X%+"):
        sch = '(core: [var(Major), var(ts("%s"))], extra_core: [], build: [var(ts("%s"))])' % (fmt_, fmt_)
        deep.append((["version", "--source", "none", "--tag-version", "1.2.3", "--bumped-timestamp", "1710511845", "--schema-ron", sch], None))
        deep.append((["version", "--source", "stdin"], "(schema: %s, vars: (major: Some(1), bumped_timestamp: Some(1710511845), last_timestamp: Some(5), custom: {}))" % sch))
    for (argv, stdin), res in zip(deep, core.pmap(work_deep, [(ctx.bins, a, s_) for a, s_ in deep])):
        ctx.evaluations += 1
        ctx.count("resource_exhaustion_probes")
        for sig, why in res:
            if sig == "__timeout__":
                ctx.count("resource_exhaustion_timeouts")
            else:
                ctx.refute(sig, why, dict(kind="fuzz", argv=[a if len(a) < 200 else a[:80] + "...<%d chars>" % len(a) for a in argv], stdin=(stdin or "")[:100], stdin_is_bytes=False))
    # every Tera built-in template of the pool, deliberately (the fuzz only draws some of them), on three inputs
    tb = []
    for t in TERA_BUILTINS:
        tb.append(["render", "1.2.3-rc.1+build.7", "--output-template", t])
        tb.append(["version", "--source", "none", "--tag-version", "1.2.3", "--bumped-branch", "Feature/Foo bar", "--bumped-timestamp", "99999999999999", "--output-template", t])
        tb.append(["version", "--source", "none", "--tag-version", "1.2.3", "--distance", "2", "--bumped-branch", "main", "--bumped-timestamp", "1710511845", "--custom", "{\"a\": {\"b\": [1, 2]}}", "--output-template", t])
        tb.append(["flow", "--source", "none", "--tag-version", "1.2.3", "--distance", "2", "--bumped-timestamp", "1710511845", "--output-template", t])
    for argv, res in zip(tb, core.pmap(work_deep, [(ctx.bins, a, None) for a in tb])):
        ctx.evaluations += 1
        ctx.count("tera_builtin_sweep_runs")
        for sig, why in res:
            if sig == "__timeout__":
                slow.append(dict(kind="fuzz", argv=argv, stdin=None, stdin_is_bytes=False))
            else:
                ctx.refute(sig, why, dict(kind="fuzz", argv=argv, stdin=None, stdin_is_bytes=False))
    # every bump / override flag against schemas whose precedence_order leaves levels out, repeats them or reverses them (via --schema-ron and via stdin)
    po = [("--schema-ron", r_) for r_ in RONS if "precedence_order" in r_]
    ops = [["--bump-major"], ["--bump-minor"], ["--bump-patch"], ["--bump-epoch"], ["--bump-post"], ["--bump-dev"], ["--bump-pre-release-num"], ["--bump-pre-release-label", "rc"],
           ["--bump-core", "0"], ["--bump-core", "1=2"], ["--bump-extra-core", "0"], ["--bump-build", "0"], ["--core", "0=5"], ["--extra-core", "0=1"], ["--major", "3", "--bump-minor"],
           ["--post", "2", "--bump-post", "--bump-core", "-1"]]
    pob = []
    for _, sch in po:
        for op in ops:
            pob.append((["version", "--source", "none", "--tag-version", "1.2.3-rc.1.post.4", "--schema-ron", sch] + op, None))
            pob.append((["version", "--source", "stdin"] + op, "(schema: %s, vars: (major: Some(1), minor: Some(2), patch: Some(3), pre_release: Some((label: Rc, number: Some(1))), post: Some(4), custom: {}))" % sch))
    for (argv, stdin), res in zip(pob, core.pmap(work_deep, [(ctx.bins, a, s_) for a, s_ in pob])):
        ctx.evaluations += 1
        ctx.count("precedence_order_bump_probes")
        for sig, why in res:
            if sig != "__timeout__":
                ctx.refute(sig, why, dict(kind="fuzz", argv=argv, stdin=stdin, stdin_is_bytes=False))
    # Tera's looping built-ins: bounded ones must work, an unbounded one must not eat the machine (every run has an 8 GiB address-space ceiling)
    loops = [["render", "1.2.3", "--output-template", "{% for i in range(end=1000) %}x{% endfor %}"],
             ["render", "1.2.3", "--output-template", "{{ range(end=5, step_by=0) }}"],
             ["render", "1.2.3", "--output-template", "{% for i in range(end=10000000000) %}x{% endfor %}"]]
    for argv, res in zip(loops, core.pmap(work_deep, [(ctx.bins, a, None) for a in loops])):
        ctx.evaluations += 1
        ctx.count("tera_loop_probes")
        for sig, why in res:
            if sig == "__timeout__":
                slow.append(dict(kind="fuzz", argv=argv, stdin=None, stdin_is_bytes=False))
            else:
                ctx.refute(sig, why, dict(kind="fuzz", argv=argv, stdin=None, stdin_is_bytes=False))
    # "terminates": what hit the watchdog under load is repeated alone
    tbad, tn = judge_termination(ctx.bins, slow)
    ctx.count("watchdog_hits_rerun_serially", tn)
    ctx.evaluations += tn
    for sig, why, case in tbad:
        ctx.refute(sig, why, case)
    nrep = 5 if quick else 96
    calls = set()
    for r in core.pmap(work_faults, [(ctx.bins, "%s/%d" % (ctx.prop, ctx.seed), i, ctx.tmp, part) for i in range(nrep) for part in range(4)]):
        ctx.merge_counts(r["st"])
        ctx.evaluations += r["st"]["fault_runs"]
        ctx.distinct_extra += r["pairs"]
        calls |= set(r["calls"])
        for sig, why, case in r["bad"]:
            ctx.refute(sig, why, case)
    ctx.notes.append("git invocations failed in turn: %s" % sorted(calls))
    ctx.sample(dict(fault_modes=MODES, git_calls=sorted(calls)))
    if len(calls) < 6:
        raise core.Inconclusive("git shim saw only %d distinct git sub-commands" % len(calls))
    ctx.rule = ("(A) %d argument vectors over the flag tables scraped from `zerv <cmd> --help` (version %d, flow %d, render %d, check %d flags) with adversarial "
                "values (non-ASCII text, numbers around 2^32 / 2^64 / 10^30, %d templates incl. every custom function with bad arguments, malformed RON / "
                "branch rules / JSON, version strings from the parser generators incl. repeated secondary labels) and stdin in {none, empty, valid object, "
                "mutant, binary}; successes and a sample of failures re-run with -v and/or RUST_LOG=trace; (B) %d repositories x 4 commands: every git call of the "
                "clean run (k = 1..n) failed in each of %d modes, plus git missing / not a repository / no commits / broken .git. "
                "non-trivial = distinct (argv, stdin) and (repo, command, k, mode)" % (32 * per, len(flags["version"]), len(flags["flow"]), len(flags["render"]),
                                                                                     len(flags["check"]), len(TEMPLATES), nrep, len(MODES)))
    ctx.assumptions = ["a watchdog timeout (20 s under load) is not a verdict: up to 12 such runs are repeated one at a time with a 150 s ceiling and only judged then",
                       "every zerv process runs under an 8 GiB address-space limit (an allocation failure abort is judged as an abort)"]


def replay(ctx, doc):
    c = doc["case"]
    if c["kind"] == "fuzz":
        stdin = c["stdin"]
        if c.get("stdin_is_bytes"):
            stdin = stdin.encode("latin-1")
        r = core.run_zerv(ctx.bins, c.get("argv_verbose") or c["argv"], stdin=stdin,
                          env=core.base_env(ctx.bins, extra={"RUST_LOG": "trace"} if c.get("how") in ("trace", "both") else None))
        print("exit=%s\nstdout=%r\nstderr=%r" % (r["exit"], r["out"][:500], r["err"][:800]))
        res = judge(r, c["argv"])
        for x in res:
            print(x)
        if res:
            print("VIOLATION property=C13 replay=%s" % doc.get("_path", "?"))
            return 1
        return 0
    r = work_faults(ctx.bins, c["seed"], c["idx"], ctx.tmp)
    for b in r["bad"][:10]:
        print(b[0], b[1])
    if r["bad"]:
        print("VIOLATION property=C13 replay=%s" % doc.get("_path", "?"))
        return 1
    return 0
