"""Random git histories built with native git, mirrored by a shadow commit-DAG model."""
import os
import shutil
import subprocess

from . import core
from .refs import pep440 as P
from .refs import semver as S

DIRT_KINDS = ["clean", "modified", "staged_new", "untracked", "ignored_only", "deleted", "staged_modified", "staged_then_reverted", "staged_new_then_deleted",
              "untracked_in_subdir", "touched_same_content", "mode_change", "unmerged"]


class GitError(Exception):
    pass


def git_env(home):
    return {
        "PATH": "/usr/local/bin:/usr/bin:/bin", "HOME": home, "GIT_CONFIG_NOSYSTEM": "1", "GIT_CONFIG_GLOBAL": "/dev/null",
        "GIT_AUTHOR_NAME": "A U Thor", "GIT_AUTHOR_EMAIL": "a@example.invalid", "GIT_COMMITTER_NAME": "C O Mitter",
        "GIT_COMMITTER_EMAIL": "c@example.invalid", "LANG": "C", "TZ": "UTC", "GIT_TERMINAL_PROMPT": "0",
    }


class Repo:
    def __init__(self, path, rng):
        self.path = path
        self.rng = rng
        self.env = git_env(os.path.dirname(path))
        self.commits = []        # dict(id, parents, ctime, atime, sha)
        self.branches = {}       # name -> cid
        self.head = ("branch", "main")
        self.tags = []           # dict(name, cid, annotated, ttime)
        self._anc = {}
        self.nfile = 0
        self.ops = []            # human-readable operation log (for replay files)
        self.force_ctime = None  # when set, the committer time of the next commit (one-shot)
        os.makedirs(path)
        self.git("init", "-q", "-b", "main")
        with open(os.path.join(path, ".gitignore"), "w") as f:
            f.write("*.ign\nignored_dir/\n")
        with open(os.path.join(path, "tracked.txt"), "w") as f:
            f.write("base\n")
        self.git("add", ".gitignore", "tracked.txt")
        self._commit_raw("root", [])

    # -- plumbing -----------------------------------------------------------
    def git(self, *args, env=None, check=True):
        e = dict(self.env)
        if env:
            e.update(env)
        r = subprocess.run([core.REAL_GIT] + list(args), cwd=self.path, env=e, capture_output=True, text=True)
        if check and r.returncode != 0:
            raise GitError("git %s failed: %s" % (" ".join(args), r.stderr.strip()))
        return r.stdout.strip()

    def stamp(self, t):
        """a git date for the instant t, recorded under a random UTC offset (the instant is what counts; the recorded zone is the committer's)"""
        return "@%d %s" % (t, self.rng.choice(["+0000", "+0000", "+1400", "-1100", "+0530", "-0500", "+0100", "-0930", "+1245"]))

    def rand_time(self):
        if self.rng.random() < 0.04:
            # edge instants: the epoch itself, the i32 boundary, far future
            return self.rng.choice([0, 1, 86399, 2 ** 31 - 1, 2 ** 31, 4102444800, 7258118399])
        return self.rng.randrange(1_400_000_000, 1_800_000_000)

    def head_cid(self):
        return self.branches[self.head[1]] if self.head[0] == "branch" else self.head[1]

    def _commit_raw(self, msg, parents_extra):
        ct, at = self.rand_time(), self.rand_time()
        if self.force_ctime is not None:
            ct, self.force_ctime = self.force_ctime, None
        self.git("commit", "-q", "--allow-empty", "-m", msg, env={"GIT_COMMITTER_DATE": self.stamp(ct), "GIT_AUTHOR_DATE": self.stamp(at)})
        sha = self.git("rev-parse", "HEAD")
        cid = len(self.commits)
        parents = ([self.head_cid()] if self.commits else []) + parents_extra
        self.commits.append(dict(id=cid, parents=parents, ctime=ct, atime=at, sha=sha))
        if self.head[0] == "branch":
            self.branches[self.head[1]] = cid
        else:
            self.head = ("detached", cid)
        return cid

    # -- operations ---------------------------------------------------------
    def add_submodule(self):
        """adds a submodule `lib` (own little repository next to this one) and commits it"""
        src = os.path.join(os.path.dirname(self.path), "subsrc")
        if not os.path.exists(src):
            os.makedirs(src)
            subprocess.run([core.REAL_GIT, "init", "-q", "-b", "main", src], env=self.env, check=True, capture_output=True)
            with open(os.path.join(src, "inner.txt"), "w") as f:
                f.write("inner\n")
            subprocess.run([core.REAL_GIT, "-C", src, "add", "inner.txt"], env=self.env, check=True, capture_output=True)
            subprocess.run([core.REAL_GIT, "-C", src, "commit", "-q", "-m", "inner"], env=self.env, check=True, capture_output=True)
        self.git("-c", "protocol.file.allow=always", "submodule", "add", "-q", src, "lib")
        cid = self._commit_raw("add submodule lib", [])
        self.ops.append("submodule add lib -> c%d" % cid)
        return cid

    def commit(self, filename=None, content=None):
        self.nfile += 1
        name = filename or "f%d.txt" % self.nfile
        if os.path.dirname(name):
            os.makedirs(os.path.join(self.path, os.path.dirname(name)), exist_ok=True)
        with open(os.path.join(self.path, name), "w") as f:
            f.write(content or "content %d\n" % self.nfile)
        self.git("add", name)
        cid = self._commit_raw("c%d" % self.nfile, [])
        self.ops.append("commit -> c%d" % cid + (" (adds the path %r)" % filename if filename else ""))
        return cid

    def branch(self, name, cid=None):
        if name in self.branches:
            return False
        cid = self.head_cid() if cid is None else cid
        self.git("branch", name, self.commits[cid]["sha"], check=False)
        if self.git("branch", "--list", name).lstrip("* ").strip() != name:
            return False
        self.branches[name] = cid
        self.ops.append("branch %s at c%d" % (name, cid))
        return True

    def checkout(self, name):
        self.git("switch", "-q", name)       # `switch` only considers branches (a tag may carry the same name)
        self.head = ("branch", name)
        self.ops.append("checkout %s" % name)

    def detach(self, cid):
        self.git("checkout", "-q", "--detach", self.commits[cid]["sha"])
        self.head = ("detached", cid)
        self.ops.append("detach at c%d" % cid)

    def merge(self, other, force_noff=False):
        """merge branch `other` into HEAD (--no-ff when possible)"""
        h, o = self.head_cid(), self.branches[other]
        if o in self.anc(h):
            return False            # already merged
        if h in self.anc(o):
            # fast-forward possible: do a real ff half of the time
            if not force_noff and self.rng.random() < 0.5:
                self.git("merge", "-q", "--ff-only", "refs/heads/" + other)
                if self.head[0] == "branch":
                    self.branches[self.head[1]] = o
                else:
                    self.head = ("detached", o)
                self.ops.append("ff-merge %s" % other)
                return True
        ct, at = self.rand_time(), self.rand_time()
        self.git("merge", "-q", "--no-ff", "--allow-unrelated-histories", "-m", "merge %s" % other, "refs/heads/" + other, env={"GIT_COMMITTER_DATE": self.stamp(ct), "GIT_AUTHOR_DATE": self.stamp(at)})
        sha = self.git("rev-parse", "HEAD")
        cid = len(self.commits)
        self.commits.append(dict(id=cid, parents=[h, o], ctime=ct, atime=at, sha=sha))
        if self.head[0] == "branch":
            self.branches[self.head[1]] = cid
        else:
            self.head = ("detached", cid)
        self.ops.append("merge %s -> c%d" % (other, cid))
        return True

    def octopus(self, others):
        """merge several branches into HEAD at once; the parents are read back from git (it drops heads that are ancestors of other heads)"""
        h = self.head_cid()
        before = self.git("rev-parse", "HEAD")
        ct, at = self.rand_time(), self.rand_time()
        e = dict(self.env)
        e.update({"GIT_COMMITTER_DATE": self.stamp(ct), "GIT_AUTHOR_DATE": self.stamp(at)})
        r = subprocess.run([core.REAL_GIT, "merge", "-q", "--no-ff", "-m", "octopus %s" % "+".join(others)] + ["refs/heads/" + o for o in others],
                           cwd=self.path, env=e, capture_output=True, text=True)
        sha = self.git("rev-parse", "HEAD")
        if r.returncode != 0 or sha == before:
            self.git("merge", "--abort", check=False)
            self.git("reset", "-q", "--hard", before, "--")
            return False
        by_sha = {c["sha"]: c["id"] for c in self.commits}
        if sha in by_sha:
            cid = by_sha[sha]
        else:
            parents = [by_sha[x] for x in self.git("rev-list", "--parents", "-n", "1", "HEAD", "--").split()[1:]]
            cid = len(self.commits)
            self.commits.append(dict(id=cid, parents=parents, ctime=ct, atime=at, sha=sha))
        if self.head[0] == "branch":
            self.branches[self.head[1]] = cid
        else:
            self.head = ("detached", cid)
        self.ops.append("octopus merge %s -> c%d (parents %s)" % ("+".join(others), cid, self.commits[cid]["parents"]))
        return len(self.commits[cid]["parents"]) > 2

    def orphan(self, name):
        """a second root: `git switch --orphan`, same base files as the first root (so that the lines merge cleanly later)"""
        if name in self.branches:
            return False
        self.git("switch", "-q", "--orphan", name)
        with open(os.path.join(self.path, ".gitignore"), "w") as f:
            f.write("*.ign\nignored_dir/\n")
        with open(os.path.join(self.path, "tracked.txt"), "w") as f:
            f.write("base\n")
        self.git("add", ".gitignore", "tracked.txt")
        ct, at = self.rand_time(), self.rand_time()
        self.git("commit", "-q", "-m", "root of %s" % name, env={"GIT_COMMITTER_DATE": self.stamp(ct), "GIT_AUTHOR_DATE": self.stamp(at)})
        if self.git("branch", "--show-current") != name:
            raise GitError("orphan branch %s not created" % name)
        cid = len(self.commits)
        self.commits.append(dict(id=cid, parents=[], ctime=ct, atime=at, sha=self.git("rev-parse", "HEAD")))
        self.branches[name] = cid
        self.head = ("branch", name)
        self.ops.append("orphan root on new branch %s -> c%d" % (name, cid))
        return True

    def tag(self, name, cid=None, annotated=False, nested=False):
        if any(t["name"] == name for t in self.tags):
            return False
        cid = self.head_cid() if cid is None else cid
        tt = None
        if nested:
            # an annotated tag of an annotated tag of the commit (what `git tag -a outer inner` makes): both peel to the commit
            inner = "nest-%d" % len(self.tags)
            tt = self.rand_time()
            self.git("tag", "-a", "-m", "inner", inner, self.commits[cid]["sha"], env={"GIT_COMMITTER_DATE": self.stamp(tt)}, check=False)
            if self.git("tag", "-l", inner) != inner:
                return False
            self.tags.append(dict(name=inner, cid=cid, annotated=True, ttime=tt))
            r = self.git("tag", "-a", "-m", "tag " + name, name, inner, env={"GIT_COMMITTER_DATE": self.stamp(tt)}, check=False)
            if self.git("tag", "-l", name) != name:
                return False
            self.tags.append(dict(name=name, cid=cid, annotated=True, ttime=tt, nested=True))
            self.ops.append("tag(nested annotated, through %s) %s at c%d" % (inner, name, cid))
            return True
        if annotated:
            tt = self.rand_time()
            r = self.git("tag", "-a", "-m", "tag " + name, name, self.commits[cid]["sha"], env={"GIT_COMMITTER_DATE": self.stamp(tt)}, check=False)
        else:
            r = self.git("tag", name, self.commits[cid]["sha"], check=False)
        # verify it exists (names git refuses are simply skipped)
        if self.git("tag", "-l", name) != name:
            return False
        self.tags.append(dict(name=name, cid=cid, annotated=annotated, ttime=tt))
        self.ops.append("tag%s %s at c%d" % ("(annotated)" if annotated else "", name, cid))
        return True

    # -- dirt ---------------------------------------------------------------
    def make_dirty(self, kind):
        p = self.path
        if kind == "clean":
            return False
        if kind == "modified":
            with open(os.path.join(p, "tracked.txt"), "a") as f:
                f.write("dirty\n")
            return True
        if kind == "staged_modified":
            with open(os.path.join(p, "tracked.txt"), "a") as f:
                f.write("dirty staged\n")
            self.git("add", "tracked.txt")
            return True
        if kind == "staged_new":
            with open(os.path.join(p, "new_staged.txt"), "w") as f:
                f.write("x\n")
            self.git("add", "new_staged.txt")
            return True
        if kind == "untracked":
            with open(os.path.join(p, "untracked.txt"), "w") as f:
                f.write("x\n")
            return True
        if kind == "ignored_only":
            with open(os.path.join(p, "junk.ign"), "w") as f:
                f.write("x\n")
            os.makedirs(os.path.join(p, "ignored_dir"), exist_ok=True)
            with open(os.path.join(p, "ignored_dir", "a.txt"), "w") as f:
                f.write("x\n")
            return False
        if kind == "deleted":
            os.remove(os.path.join(p, "tracked.txt"))
            return True
        if kind == "staged_then_reverted":
            # index differs from HEAD, work tree equals HEAD again (`MM`): something is staged -> dirty
            orig = open(os.path.join(p, "tracked.txt")).read()
            with open(os.path.join(p, "tracked.txt"), "a") as f:
                f.write("staged only\n")
            self.git("add", "tracked.txt")
            with open(os.path.join(p, "tracked.txt"), "w") as f:
                f.write(orig)
            return True
        if kind == "staged_new_then_deleted":
            with open(os.path.join(p, "ghost.txt"), "w") as f:
                f.write("x\n")
            self.git("add", "ghost.txt")
            os.remove(os.path.join(p, "ghost.txt"))
            return True
        if kind == "touched_same_content":
            # same bytes, new inode/mtime (cp -r, cache restore, edit-and-revert): the index stat data is stale, the tree is clean
            fp = os.path.join(p, "tracked.txt")
            data = open(fp, "rb").read()
            os.remove(fp)
            with open(fp, "wb") as f:
                f.write(data)
            os.utime(fp, (1_000_000_000 + self.rng.randrange(10 ** 8), 1_000_000_000 + self.rng.randrange(10 ** 8)))
            return False
        if kind == "mode_change":
            # content untouched, executable bit flipped: git status reports ` M` (core.fileMode is on for a Linux work tree)
            fp = os.path.join(p, "tracked.txt")
            os.chmod(fp, os.stat(fp).st_mode ^ 0o111)
            return True
        if kind == "unmerged":
            # the index as a stopped merge / rebase / cherry-pick / stash pop leaves it: stages 1-3 for a tracked path, conflict markers in the file
            blobs = []
            for txt in ("base\n", "base\nours\n", "base\ntheirs\n"):
                r = subprocess.run([core.REAL_GIT, "hash-object", "-w", "--stdin"], cwd=p, env=self.env, input=txt, capture_output=True, text=True, check=True)
                blobs.append(r.stdout.strip())
            info = "0 0000000000000000000000000000000000000000\ttracked.txt\n" + "".join("100644 %s %d\ttracked.txt\n" % (b, i + 1) for i, b in enumerate(blobs))
            subprocess.run([core.REAL_GIT, "update-index", "--index-info"], cwd=p, env=self.env, input=info, capture_output=True, text=True, check=True)
            with open(os.path.join(p, "tracked.txt"), "w") as f:
                f.write("base\n<<<<<<< ours\nours\n=======\ntheirs\n>>>>>>> theirs\n")
            return True
        if kind == "submodule_modified":
            # a tracked file edited inside a checked-out submodule: the super-project's status reports ` M lib`
            with open(os.path.join(p, "lib", "inner.txt"), "a") as f:
                f.write("edited\n")
            return True
        if kind == "untracked_in_subdir":
            os.makedirs(os.path.join(p, "newdir", "deep"), exist_ok=True)
            with open(os.path.join(p, "newdir", "deep", "u.txt"), "w") as f:
                f.write("x\n")
            return True
        raise KeyError(kind)

    def clean(self):
        self.git("reset", "-q", "--hard", "HEAD", "--")
        self.git("clean", "-q", "-fdx")

    # -- model queries --------------------------------------------------------
    def anc(self, cid):
        a = self._anc.get(cid)
        if a is None:
            s = {cid}
            for p in self.commits[cid]["parents"]:
                s |= self.anc(p)
            a = frozenset(s)
            self._anc[cid] = a
        return a

    def tags_at(self, cid):
        return [t["name"] for t in self.tags if t["cid"] == cid]

    def destroy(self):
        shutil.rmtree(self.path, ignore_errors=True)


# ---------------------------------------------------------------------------
# tag validity / ordering by format
# ---------------------------------------------------------------------------
def valid_in(tag, fmt):
    """a version tag zerv can hold: in the grammar and every number within the format's integer type (C08 / C09: beyond it the tag is refused)"""
    if fmt == "semver":
        v = S.parse(tag, allow_v=True)
        return v is not None and S.representable(v)
    if fmt == "pep440":
        v = P.parse(tag)
        return v is not None and tag == tag.strip() and P.representable(v)
    return valid_in(tag, "semver") or valid_in(tag, "pep440")


def admissible_max(tags, fmt):
    """set of tag names that may be reported as the maximum of `tags` under fmt"""
    out = set()
    if fmt in ("semver", "auto"):
        sv = [t for t in tags if valid_in(t, "semver")]
        if sv:
            best = max(S.key(S.parse(t, allow_v=True)) for t in sv)
            out |= {t for t in sv if S.key(S.parse(t, allow_v=True)) == best}
    if fmt in ("pep440", "auto"):
        pv = [t for t in tags if valid_in(t, "pep440")]
        if pv:
            best = max(P.key_zerv(P.parse(t)) for t in pv)
            out |= {t for t in pv if P.key_zerv(P.parse(t)) == best}
    return out


BOTH = ["%d.%d.%d", "v%d.%d.%d", "%d.%d.%d-rc.1", "%d.%d.%d-alpha.2", "%d.%d.%d+build.5", "%d.%d.%d-beta.10",
        "%d.%d.%d-dev.1", "%d.%d.%d-post.2", "%d.%d.%d-alpha.1.dev.2", "%d.%d.%d-rc.1.post.3"]      # zerv's own secondary labels: plain identifiers for SemVer precedence
SEMVER_ONLY = ["%d.%d.%d-x.y", "%d.%d.%d-0.3.7", "%d.%d.%d-rc-1", "%d.%d.%d--"]
PEP_ONLY = ["%d.%d", "%d.%da1", "2!%d.%d", "%d.%d.post1", "%d.%d.dev3", "%d.%d.%d.4", "%d.%drc1", "%d.%d.%d.post2.dev1"]
NONVERSION = ["release-%d", "latest", "v%d.%d.x", "%d.%d.%d-", "build/%d.%d.%d", "nightly_%d", "V%d-%d", "%d..%d"]
# spellings and sizes at the edges of the two grammars: capital V (PEP 440 only), numbers at / beyond u32 and u64, leading zeros (PEP 440 only),
# PEP 440 alternative separators and labels, a single number
EDGE = ["V%d.%d.%d", "%d.%d.4294967295", "%d.%d.4294967296", "%d.%d.18446744073709551615", "%d.%d.18446744073709551616", "0%d.%d.%d", "%d.0%d.%d",
        "%d.%d.%d-RC.1", "%d.%d-%d", "%d.%d.%d.RC1", "%d.%d.%d_alpha_1", "%d.%d.%d-rc.01", "v%d", "%d", "%d.%d.%d+4294967296", "%d.%d.%d-4294967296",
        "%d.%d.%d+l.18446744073709551616", "%d.%d.%d.rev3", "%d.%d.%dc2", "%d.%d.%d-PREVIEW.2", "v%d.%d.%d.dev0+local.7"]
NUMS = [0, 1, 2, 3, 9, 10, 11, 20, 100]


def rand_tag(rng):
    k = rng.random()
    if k > 0.93:
        tpl = rng.choice(EDGE)
        return tpl % tuple(rng.choice(NUMS) for _ in range(tpl.count("%d")))
    pool = BOTH if k < 0.5 else SEMVER_ONLY if k < 0.62 else PEP_ONLY if k < 0.8 else NONVERSION
    tpl = rng.choice(pool)
    n = tpl.count("%d")
    return tpl % tuple(rng.choice(NUMS) for _ in range(n))


BRANCHES = ["develop", "feature/x", "feature/login-1", "release/3", "release/4/fix", "hotfix/7", "topic", "dev", "bugfix/ISSUE-42", "wip",
            "feature/ünï-日本", "UPPER/Case", "a.b", "rel#1", "x" * 70, "1.2.3-branch", "v9"]


def build_random(path, rng, nops):
    """Builds a random history; yields after each operation that changed something
    (the caller observes). Returns the Repo."""
    r = Repo(path, rng)
    yield r
    if rng.random() < 0.12:
        # an octopus merge early in the history (random operations rarely line up two or three independent heads): side lines that each
        # carry a commit, some of them tagged, merged into main at once
        try:
            names = ["oct-%d" % i for i in range(rng.choice([2, 2, 3]))]
            for nm in names:
                r.branch(nm, 0)
                r.checkout(nm)
                r.commit()
                if rng.random() < 0.6:
                    r.tag(rand_tag(rng), None, annotated=rng.random() < 0.4)
                yield r
            r.checkout("main")
            if rng.random() < 0.7:
                r.commit()
            r.octopus(names)
        except GitError as e:
            raise core.Inconclusive("generator (octopus prelude): %s" % e)
        yield r
    for _ in range(nops):
        k = rng.random()
        try:
            if k < 0.32:
                if rng.random() < 0.06:
                    # a work-tree path that shares its name with a ref: a tag, a branch, HEAD, or a directory named like a tag
                    names = [t["name"] for t in r.tags] + sorted(r.branches) + ["HEAD"]
                    nm = rng.choice(names)
                    import zlib
                    # file or directory is a function of the name, and the content is constant: the same path added on two branches merges cleanly
                    target = nm if zlib.crc32(nm.encode()) % 5 < 3 else nm + "/readme.md"
                    if not os.path.exists(os.path.join(r.path, nm)):
                        r.commit(filename=target, content="named like a ref\n")
                    else:
                        r.commit()
                else:
                    r.commit()
            elif k < 0.42:
                name = rng.choice(BRANCHES)
                cid = rng.choice(r.commits)["id"] if rng.random() < 0.4 else None
                if not r.branch(name, cid):
                    continue
                if rng.random() < 0.7:
                    r.checkout(name)
            elif k < 0.50:
                if r.head[0] == "detached" and rng.random() < 0.8:
                    r.checkout(rng.choice(sorted(r.branches)))
                else:
                    r.checkout(rng.choice(sorted(r.branches)))
            elif k < 0.66:
                others = [b for b in sorted(r.branches) if not (r.head[0] == "branch" and b == r.head[1])]
                kk = rng.random()
                if kk < 0.2 and len(others) >= 2:
                    # heads that bring something new and are not ancestors of one another (git drops the others from the parent list)
                    h = r.head_cid()
                    cands = []
                    for b in rng.sample(others, len(others)):
                        c = r.branches[b]
                        if c not in r.anc(h) and all(c not in r.anc(r.branches[x]) and r.branches[x] not in r.anc(c) for x in cands):
                            cands.append(b)
                    if len(cands) < 2 or not r.octopus(cands[:rng.choice([2, 2, 3])]):
                        continue
                elif kk < 0.26:
                    if not r.orphan("orphan-%d" % len(r.commits)):
                        continue
                elif not others or not r.merge(rng.choice(others)):
                    continue
            elif k < 0.92:
                cid = None
                kk = rng.random()
                if kk < 0.35:
                    cid = rng.choice(r.commits)["id"]          # any commit, possibly unreachable from HEAD
                elif kk < 0.5 and r.tags:
                    cid = rng.choice(r.tags)["cid"]             # another tag on an already tagged commit
                name = rand_tag(rng)
                if rng.random() < 0.06:
                    name = rng.choice(sorted(r.branches))      # a (non-version) tag that shares its name with a branch
                if not r.tag(name, cid, annotated=rng.random() < 0.4, nested=rng.random() < 0.05):
                    continue
            elif k < 0.97:
                r.detach(rng.choice(r.commits)["id"])
            else:
                # housekeeping that must not change any reported fact
                r.git(*rng.choice([("pack-refs", "--all"), ("gc", "-q"), ("repack", "-q", "-a", "-d")]))
                r.ops.append("housekeeping")
        except GitError as e:
            raise core.Inconclusive("generator: %s" % e)
        yield r
