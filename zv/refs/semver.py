"""Independent SemVer 2.0.0 reference: recogniser, printer, precedence key.

Written from semver.org (BNF in the spec), hand-rolled (no regex shared with
zerv).  ASCII only.  Numbers are unbounded Python ints.
"""
DIGITS = "0123456789"
LETTERS = "abcdefghijklmnopqrstuvwxyzABCDEFGHIJKLMNOPQRSTUVWXYZ"
IDCHARS = DIGITS + LETTERS + "-"
U64 = 2 ** 64 - 1


def _numeric(s):
    """<numeric identifier> ::= "0" | positive digit followed by digits"""
    if not s:
        return False
    for c in s:
        if c not in DIGITS:
            return False
    return s == "0" or s[0] != "0"


def _alnum_ident(s):
    if not s:
        return False
    for c in s:
        if c not in IDCHARS:
            return False
    return True


def parse(s, allow_v=True):
    """Returns (major, minor, patch, pre, build) or None.
    pre: None or list of int | str ; build: None or list of str."""
    if not isinstance(s, str):
        return None
    if allow_v and s[:1] == "v":
        s = s[1:]
    # split build
    build = None
    plus = s.find("+")
    if plus >= 0:
        build_s = s[plus + 1:]
        s = s[:plus]
        build = build_s.split(".")
        for b in build:
            if not _alnum_ident(b):
                return None
    pre = None
    dash = s.find("-")
    if dash >= 0:
        pre_s = s[dash + 1:]
        s = s[:dash]
        pre = []
        for p in pre_s.split("."):
            if not _alnum_ident(p):
                return None
            if all(c in DIGITS for c in p):
                if not _numeric(p):
                    return None  # leading zero in numeric identifier
                pre.append(int(p))
            else:
                pre.append(p)
    core = s.split(".")
    if len(core) != 3:
        return None
    for c in core:
        if not _numeric(c):
            return None
    return (int(core[0]), int(core[1]), int(core[2]), pre, build)


def is_valid(s, allow_v=False):
    return parse(s, allow_v=allow_v) is not None


def fmt(v):
    major, minor, patch, pre, build = v
    out = "%d.%d.%d" % (major, minor, patch)
    if pre is not None:
        out += "-" + ".".join(str(x) for x in pre)
    if build is not None:
        out += "+" + ".".join(build)
    return out


def numeric_fields(v):
    major, minor, patch, pre, build = v
    out = [major, minor, patch]
    if pre:
        out += [x for x in pre if isinstance(x, int)]
    return out


def representable(v):
    return all(n <= U64 for n in numeric_fields(v))


def key(v):
    """Precedence key (build metadata ignored).  Tuples compare the way the spec
    says: numeric < alphanumeric, numeric by value, alnum in ASCII order, a
    shorter list is lower when all preceding identifiers are equal."""
    major, minor, patch, pre, _ = v
    if pre is None:
        return (major, minor, patch, 1, ())
    ids = tuple((0, x, "") if isinstance(x, int) else (1, 0, x) for x in pre)
    return (major, minor, patch, 0, ids)


def cmp(a, b):
    ka, kb = key(a), key(b)
    return (ka > kb) - (ka < kb)


def public(s):
    """version string without build metadata"""
    i = s.find("+")
    return s if i < 0 else s[:i]


def _selftest():
    ok = ["0.0.0", "1.2.3", "1.0.0-alpha", "1.0.0-alpha.1", "1.0.0-0.3.7", "1.0.0-x.7.z.92", "1.0.0-x-y-z.--",
          "1.0.0-alpha+001", "1.0.0+20130313144700", "1.0.0-beta+exp.sha.5114f85", "1.0.0+21AF26D3----117B344092BD",
          "1.0.0-0a", "1.0.0-00a", "1.0.0--", "1.0.0+-", "1.0.0+0.00.000"]
    bad = ["", "1", "1.2", "1.2.3.4", "01.2.3", "1.02.3", "1.2.03", "1.2.3-", "1.2.3-01", "1.2.3-a..b", "1.2.3+",
           "1.2.3+a..b", "1.2.3-a_b", "1.2.3 ", " 1.2.3", "1.2.3\n", "1.2.3-٣", "1.2.3+\xe9", "+1.2.3", "1.2.-3", "1.2.3-+"]
    for s in ok:
        assert is_valid(s), s
        assert fmt(parse(s)) == s, s
    for s in bad:
        assert not is_valid(s), s
    assert is_valid("v1.2.3", allow_v=True) and not is_valid("v1.2.3") and not is_valid("vv1.2.3", allow_v=True)
    chain = ["1.0.0-alpha", "1.0.0-alpha.1", "1.0.0-alpha.beta", "1.0.0-beta", "1.0.0-beta.2", "1.0.0-beta.11",
             "1.0.0-rc.1", "1.0.0", "2.0.0", "2.1.0", "2.1.1"]
    for i in range(len(chain)):
        for j in range(len(chain)):
            assert cmp(parse(chain[i]), parse(chain[j])) == ((i > j) - (i < j)), (chain[i], chain[j])
    assert cmp(parse("1.0.0+a"), parse("1.0.0+b")) == 0
    assert cmp(parse("1.0.0-1"), parse("1.0.0-a")) < 0 and cmp(parse("1.0.0-A"), parse("1.0.0-a")) < 0
    assert cmp(parse("1.0.0-2"), parse("1.0.0-10")) < 0
    return True


if __name__ == "__main__":
    _selftest()
    print("semver ref ok")
