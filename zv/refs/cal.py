"""Proleptic-Gregorian UTC calendar written from first principles (Howard
Hinnant's civil-from-days), and the 16 documented timestamp patterns."""

PATTERNS = ["YYYY", "YY", "MM", "0M", "DD", "0D", "HH", "0H", "mm", "0m", "SS", "0S", "WW", "0W",
            "compact_date", "compact_datetime"]


def civil_from_days(z):
    z += 719468
    era = (z if z >= 0 else z - 146096) // 146097
    doe = z - era * 146097
    yoe = (doe - doe // 1460 + doe // 36524 - doe // 146096) // 365
    y = yoe + era * 400
    doy = doe - (365 * yoe + yoe // 4 - yoe // 100)
    mp = (5 * doy + 2) // 153
    d = doy - (153 * mp + 2) // 5 + 1
    m = mp + 3 if mp < 10 else mp - 9
    return (y + (1 if m <= 2 else 0), m, d)


def days_from_civil(y, m, d):
    y -= 1 if m <= 2 else 0
    era = (y if y >= 0 else y - 399) // 400
    yoe = y - era * 400
    doy = (153 * (m + (-3 if m > 2 else 9)) + 2) // 5 + d - 1
    doe = yoe * 365 + yoe // 4 - yoe // 100 + doy
    return era * 146097 + doe - 719468


def fields(t):
    days, rem = divmod(t, 86400)
    y, m, d = civil_from_days(days)
    hh, rem = divmod(rem, 3600)
    mi, ss = divmod(rem, 60)
    wday = (days + 4) % 7          # 0 = Sunday (1970-01-01 was a Thursday)
    yday = days - days_from_civil(y, 1, 1)   # 0-based
    # Monday-based week of year, days before the first Monday are week 0 (%W)
    ww = (yday + 7 - ((wday + 6) % 7)) // 7
    return dict(y=y, m=m, d=d, H=hh, M=mi, S=ss, wday=wday, yday=yday, W=ww)


def resolve(pattern, t):
    f = fields(t)
    if pattern == "YYYY":
        return "%d" % f["y"] if f["y"] > 999 else "%04d" % f["y"]
    if pattern == "YY":
        return "%02d" % (f["y"] % 100)
    if pattern == "MM":
        return "%d" % f["m"]
    if pattern == "0M":
        return "%02d" % f["m"]
    if pattern == "DD":
        return "%d" % f["d"]
    if pattern == "0D":
        return "%02d" % f["d"]
    if pattern == "HH":
        return "%d" % f["H"]
    if pattern == "0H":
        return "%02d" % f["H"]
    if pattern == "mm":
        return "%d" % f["M"]
    if pattern == "0m":
        return "%02d" % f["M"]
    if pattern == "SS":
        return "%d" % f["S"]
    if pattern == "0S":
        return "%02d" % f["S"]
    if pattern == "WW":
        return "%d" % f["W"]
    if pattern == "0W":
        return "%02d" % f["W"]
    if pattern == "compact_date":
        return "%04d%02d%02d" % (f["y"], f["m"], f["d"])
    if pattern == "compact_datetime":
        return "%04d%02d%02d%02d%02d%02d" % (f["y"], f["m"], f["d"], f["H"], f["M"], f["S"])
    raise KeyError(pattern)


def strftime_utc(fmt, t):
    """Subset of strftime used by the template function format_timestamp."""
    f = fields(t)
    out = []
    i = 0
    while i < len(fmt):
        c = fmt[i]
        if c != "%" or i + 1 >= len(fmt):
            out.append(c)
            i += 1
            continue
        d = fmt[i + 1]
        i += 2
        if d == "Y":
            out.append("%04d" % f["y"])
        elif d == "m":
            out.append("%02d" % f["m"])
        elif d == "d":
            out.append("%02d" % f["d"])
        elif d == "H":
            out.append("%02d" % f["H"])
        elif d == "M":
            out.append("%02d" % f["M"])
        elif d == "S":
            out.append("%02d" % f["S"])
        elif d == "y":
            out.append("%02d" % (f["y"] % 100))
        elif d == "j":
            out.append("%03d" % (f["yday"] + 1))
        elif d == "%":
            out.append("%")
        else:
            raise KeyError(d)
    return "".join(out)


def _selftest():
    import datetime
    import random
    rng = random.Random(7)
    ts = [0, 86399, 86400, 951782400, 951868799, 1710511845, 1577836800, 4102444800, 7258118399]
    ts += [rng.randrange(0, 7258118400) for _ in range(4000)]
    for t in ts:
        dt = datetime.datetime.fromtimestamp(t, datetime.timezone.utc)
        f = fields(t)
        assert (f["y"], f["m"], f["d"], f["H"], f["M"], f["S"]) == (dt.year, dt.month, dt.day, dt.hour, dt.minute, dt.second), t
        assert "%02d" % f["W"] == dt.strftime("%W"), t
        assert resolve("compact_datetime", t) == dt.strftime("%Y%m%d%H%M%S")
        assert resolve("YY", t) == dt.strftime("%y")
        assert strftime_utc("%Y-%m-%d %j", t) == dt.strftime("%Y-%m-%d %j")
    assert resolve("WW", 1710511845) == "11" and resolve("MM", 1710511845) == "3" and resolve("0W", 1577836800) == "00"
    return True


if __name__ == "__main__":
    _selftest()
    print("cal ref ok")
