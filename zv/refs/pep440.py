"""Independent PEP 440 reference: Appendix-B recogniser, own normaliser, the two
orderings (key_zerv = the key stated in property C11; key_pep440 = the real
PEP 440 total order, used for C03), and a spelling generator."""
import re

U32 = 2 ** 32 - 1

# Appendix B of PEP 440, verbatim (whitespace stripping left out on purpose: the
# property speaks about strings without surrounding whitespace).
VERSION_PATTERN = r"""
    v?
    (?:
        (?:(?P<epoch>[0-9]+)!)?                           # epoch
        (?P<release>[0-9]+(?:\.[0-9]+)*)                  # release segment
        (?P<pre>                                          # pre-release
            [-_\.]?
            (?P<pre_l>(a|b|c|rc|alpha|beta|pre|preview))
            [-_\.]?
            (?P<pre_n>[0-9]+)?
        )?
        (?P<post>                                         # post release
            (?:-(?P<post_n1>[0-9]+))
            |
            (?:
                [-_\.]?
                (?P<post_l>post|rev|r)
                [-_\.]?
                (?P<post_n2>[0-9]+)?
            )
        )?
        (?P<dev>                                          # dev release
            [-_\.]?
            (?P<dev_l>dev)
            [-_\.]?
            (?P<dev_n>[0-9]+)?
        )?
    )
    (?:\+(?P<local>[a-z0-9]+(?:[-_\.][a-z0-9]+)*))?       # local version
"""
_RE = re.compile(r"\A" + VERSION_PATTERN + r"\Z", re.VERBOSE | re.IGNORECASE | re.ASCII)

_PRE = {"a": "a", "alpha": "a", "b": "b", "beta": "b", "c": "rc", "rc": "rc", "pre": "rc", "preview": "rc"}


def parse(s):
    """Returns dict(epoch, release(tuple), pre (label,n)|None, post n|None, dev n|None,
    local tuple of int|str or None) or None when not PEP 440."""
    if not isinstance(s, str) or not s.isascii():
        return None
    m = _RE.match(s)
    if not m:
        return None
    pre = None
    if m.group("pre_l"):
        pre = (_PRE[m.group("pre_l").lower()], int(m.group("pre_n") or 0))
    post = None
    if m.group("post") is not None:
        n = m.group("post_n1") if m.group("post_n1") is not None else m.group("post_n2")
        post = int(n or 0)
    dev = None
    if m.group("dev_l"):
        dev = int(m.group("dev_n") or 0)
    local = None
    if m.group("local") is not None:
        local = tuple(int(p) if p.isdigit() else p.lower() for p in re.split(r"[-_.]", m.group("local")))
    return dict(epoch=int(m.group("epoch") or 0), release=tuple(int(x) for x in m.group("release").split(".")),
                pre=pre, post=post, dev=dev, local=local)


def is_valid(s):
    return parse(s) is not None


def normal(v):
    out = ""
    if v["epoch"]:
        out += "%d!" % v["epoch"]
    out += ".".join(str(x) for x in v["release"])
    if v["pre"] is not None:
        out += "%s%d" % v["pre"]
    if v["post"] is not None:
        out += ".post%d" % v["post"]
    if v["dev"] is not None:
        out += ".dev%d" % v["dev"]
    if v["local"] is not None:
        out += "+" + ".".join(str(x) for x in v["local"])
    return out


def numeric_fields(v):
    out = [v["epoch"]] + list(v["release"])
    if v["pre"] is not None:
        out.append(v["pre"][1])
    if v["post"] is not None:
        out.append(v["post"])
    if v["dev"] is not None:
        out.append(v["dev"])
    if v["local"] is not None:
        out += [x for x in v["local"] if isinstance(x, int)]
    return out


def representable(v, bound=U32):
    """epoch / release / pre / post / dev fit zerv's u32 fields; numeric local parts have no limit (zerv keeps oversized ones as digits)"""
    return all(n <= bound for n in numeric_fields(dict(v, local=None)))


def _strip(rel):
    rel = list(rel)
    while len(rel) > 1 and rel[-1] == 0:
        rel.pop()
    return tuple(rel)


_PH = {"a": 0, "b": 1, "rc": 2}


def key_zerv(v):
    """The order property C11 states: epoch, zero-padded release, phase
    (a<b<rc<none)+number, post (none lowest), dev (none highest), local (none
    lowest; numeric by value and below alphabetic; shorter prefix lower)."""
    rel = _strip(v["release"])
    if rel == (0,):
        rel = ()
    pre = (3, 0) if v["pre"] is None else (_PH[v["pre"][0]], v["pre"][1])
    post = (0, 0) if v["post"] is None else (1, v["post"])
    dev = (1, 0) if v["dev"] is None else (0, v["dev"])
    if v["local"] is None:
        local = (0, ())
    else:
        local = (1, tuple((0, x, "") if isinstance(x, int) else (1, 0, x) for x in v["local"]))
    return (v["epoch"], rel, pre, post, dev, local)


def key_pep440(v):
    """packaging's _cmpkey transcribed from PEP 440's ordering rules."""
    rel = _strip(v["release"])
    if rel == (0,):
        rel = ()
    NEG, POS = (0,), (2,)
    if v["pre"] is None and v["post"] is None and v["dev"] is not None:
        pre = NEG
    elif v["pre"] is None:
        pre = POS
    else:
        pre = (1, _PH[v["pre"][0]], v["pre"][1])
    post = NEG if v["post"] is None else (1, v["post"])
    dev = POS if v["dev"] is None else (1, v["dev"])
    if v["local"] is None:
        local = (0, ())
    else:
        # numeric segments sort above alphabetic ones in real PEP 440
        local = (1, tuple((1, x, "") if isinstance(x, int) else (0, 0, x) for x in v["local"]))
    return (v["epoch"], rel, pre, post, dev, local)


def public(s):
    i = s.find("+")
    return s if i < 0 else s[:i]


# ---------------------------------------------------------------------------
# spellings
# ---------------------------------------------------------------------------
PRE_SPELL = {"a": ["a", "alpha", "A", "Alpha", "ALPHA"], "b": ["b", "beta", "B", "BETA"],
             "rc": ["rc", "c", "pre", "preview", "RC", "C", "Pre", "PREVIEW"]}
POST_SPELL = ["post", "rev", "r", "POST", "Rev", "R"]
SEPS = ["", ".", "-", "_"]


def spell(v, rng, max_rel=None):
    """A random alternative spelling of v that Appendix B accepts and that
    denotes the same version."""
    out = ""
    if rng.random() < 0.3:
        out += rng.choice(["v", "V"])
    if v["epoch"] or rng.random() < 0.2:
        out += "%s%d!" % ("0" * rng.randrange(0, 2), v["epoch"])
    rel = list(v["release"])
    for _ in range(rng.choice([0, 0, 1, 2])):
        if max_rel is None or len(rel) < max_rel:
            rel.append(0)
    out += ".".join(("0" * rng.choice([0, 0, 1])) + str(x) for x in rel)
    if v["pre"] is not None:
        lab, n = v["pre"]
        out += rng.choice(SEPS) + rng.choice(PRE_SPELL[lab])
        pre_implicit = False
        if n == 0 and rng.random() < 0.5:
            pre_implicit = True
        else:
            out += rng.choice(SEPS) + ("0" * rng.choice([0, 0, 2])) + str(n)
    else:
        pre_implicit = False
    if v["post"] is not None:
        n = v["post"]
        if rng.random() < 0.25 and not pre_implicit:
            out += "-" + ("0" * rng.choice([0, 1])) + str(n)
        else:
            out += rng.choice(SEPS) + rng.choice(POST_SPELL)
            if n == 0 and rng.random() < 0.5:
                pass
            else:
                out += rng.choice(SEPS) + ("0" * rng.choice([0, 1])) + str(n)
    if v["dev"] is not None:
        n = v["dev"]
        out += rng.choice(SEPS) + rng.choice(["dev", "DEV", "Dev"])
        if n == 0 and rng.random() < 0.5:
            pass
        else:
            out += rng.choice(SEPS) + ("0" * rng.choice([0, 1])) + str(n)
    if v["local"] is not None:
        parts = []
        for x in v["local"]:
            if isinstance(x, int):
                parts.append(("0" * rng.choice([0, 0, 1, 3])) + str(x))
            else:
                parts.append("".join(c.upper() if rng.random() < 0.3 else c for c in x))
        s = parts[0]
        for p in parts[1:]:
            s += rng.choice([".", "-", "_"]) + p
        out += "+" + s
    return out


def _selftest():
    ok = {"1.0": "1.0", "v1.0": "1.0", "1.0.0-alpha.1": "1.0.0a1", "1.0ALPHA": "1.0a0", "1.0-c-3": "1.0rc3",
          "1.0preview7": "1.0rc7", "1.0-1": "1.0.post1", "1.0.r": "1.0.post0", "1.0_rev_002": "1.0.post2",
          "1.0dev": "1.0.dev0", "0!1.0": "1.0", "2!1.0": "2!1.0", "1.0+ABC-01_x": "1.0+abc.1.x", "01.002": "1.2",
          "1.0a1.post2.dev3+l": "1.0a1.post2.dev3+l", "1": "1", "1.0.0.0.1": "1.0.0.0.1", "1.0a.1": "1.0a1",
          "1.0post": "1.0.post0", "1.0-post-1": "1.0.post1", "1.0.dev.5": "1.0.dev5"}
    bad = ["", "a", "1.", ".1", "1..0", "1.0+", "1.0+a..b", "1.0+a+b", "1.0-", "1.0 ", " 1.0", "1.0\n", "1.0--1",
           "1.0+ſ", "1.0poſt1", "1.0+K", "!1", "1!", "1.0-a-b", "1.0x", "1.0.post1.post2", "1.0dev1a1",
           "١.0"]
    for s, n in ok.items():
        v = parse(s)
        assert v is not None, s
        assert normal(v) == n, (s, normal(v), n)
        assert normal(parse(n)) == n
    for s in bad:
        assert parse(s) is None, s
    try:
        from packaging.version import Version, InvalidVersion
    except Exception:
        Version = None
    if Version is not None:
        import random
        rng = random.Random(1)
        for s in list(ok) + bad:
            if s != s.strip():
                continue
            try:
                pv = Version(s)
            except InvalidVersion:
                pv = None
            assert (pv is None) == (parse(s) is None), s
            if pv is not None:
                assert str(pv) == normal(parse(s)), s
        # random cross-check of order and normal form
        vs = []
        for _ in range(300):
            v = dict(epoch=rng.choice([0, 0, 1]), release=tuple(rng.choice([0, 1, 2, 10]) for _ in range(rng.randrange(1, 4))),
                     pre=rng.choice([None, ("a", 0), ("b", 1), ("rc", 10)]), post=rng.choice([None, 0, 1]),
                     dev=rng.choice([None, 0, 1]), local=rng.choice([None, (1,), ("a",), ("a", 1), (1, "a")]))
            s = spell(v, rng)
            assert parse(s) is not None, s
            assert key_pep440(parse(s)) == key_pep440(v), (s, v)
            assert str(Version(s)) == normal(parse(s)), (s, normal(parse(s)), str(Version(s)))
            vs.append(v)
        for a in vs[:120]:
            for b in vs[:120]:
                ka, kb = key_pep440(a), key_pep440(b)
                mine = (ka > kb) - (ka < kb)
                pa, pb = Version(normal(a)), Version(normal(b))
                theirs = (pa > pb) - (pa < pb)
                assert mine == theirs, (normal(a), normal(b), mine, theirs)
    return Version is not None


if __name__ == "__main__":
    print("pep440 ref ok; packaging cross-check:", _selftest())
