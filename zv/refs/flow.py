"""The C04 flow law (DESIGN Appendix A.2), written from the property statement."""

U32 = 2 ** 32 - 1
DEFAULT_RULES = [
    dict(pattern="develop", label="beta", num=1, mode="commit"),
    dict(pattern="release/*", label="rc", num=None, mode="tag"),
    dict(pattern="*", label="alpha", num=None, mode="commit"),
]
LABEL = {"alpha": "Alpha", "beta": "Beta", "rc": "Rc"}


def rules_to_ron(rules):
    out = []
    for r in rules:
        s = '(pattern: "%s", pre_release_label: %s, ' % (r["pattern"], r["label"])
        if r["num"] is not None:
            s += "pre_release_num: %d, " % r["num"]
        s += "post_mode: %s)" % r["mode"]
        out.append(s)
    return "[" + ", ".join(out) + "]"


def matches(rule, branch):
    p = rule["pattern"]
    if p == "*":
        return branch != ""
    if p.endswith("/*"):
        prefix = p[:-1]            # keeps the slash: only names *under* prefix/
        return branch.startswith(prefix) and len(branch) > len(prefix)
    return p == branch


def find_rule(rules, branch):
    if branch is None:
        return None
    for r in rules:
        if matches(r, branch):
            return r
    return None


def first_numeric_segment(path):
    """Returns ('num', n) | ('none',) | ('unfit', seg) for the first all-digit segment."""
    for seg in path.split("/"):
        if seg and seg.isascii() and seg.isdigit():
            n = int(seg)
            if n > U32:
                return ("unfit", seg)
            return ("num", n)
    return ("none",)


def rule_number(rule, branch):
    """-> ('num', n) | ('hash',) | ('unfit', seg)"""
    if rule is None:
        return ("hash",)
    if rule["num"] is not None:
        return ("num", rule["num"])
    p = rule["pattern"]
    if p == "*":
        r = first_numeric_segment(branch)
    elif p.endswith("/*"):
        r = first_numeric_segment(branch[len(p) - 1:])
    else:
        return ("hash",)
    if r[0] == "none":
        return ("hash",)
    return r


def law(v0, opts, rules, clock):
    """v0: current vars; opts: dict(label, num, mode, post) explicit flags (None when absent).
    Returns dict(fields..., num_source=...) where pre_release number may be the marker 'HASH'."""
    branch = v0.get("bumped_branch")
    rule = find_rule(rules, branch)
    label = opts.get("label") or (rule["label"] if rule else "alpha")
    mode = opts.get("mode") or (rule["mode"] if rule else "commit")
    if opts.get("num") is not None:
        num = ("num", opts["num"])
    else:
        num = rule_number(rule, branch)
    dirty = v0.get("dirty") is True
    distance = v0.get("distance")
    active = dirty or (distance or 0) > 0
    out = {k: v0.get(k) for k in ("epoch", "major", "minor", "patch", "pre_release", "post", "dev")}
    base = opts.get("post") if opts.get("post") is not None else v0.get("post")
    if not active:
        out["post"] = base
        out["num_source"] = None
        out["mode"] = mode
        out["rule"] = rule["pattern"] if rule else None
        return out
    if v0.get("pre_release") is None:
        out["patch"] = (v0.get("patch") or 0) + 1
    out["pre_release"] = (LABEL[label], num)
    if mode == "commit":
        out["post"] = (base or 0) + distance if distance is not None else base
    else:
        out["post"] = (base or 0) + 1
    out["dev"] = clock if (dirty or (mode == "tag" and (distance or 0) > 0)) else None
    out["num_source"] = num[0]
    out["mode"] = mode
    out["rule"] = rule["pattern"] if rule else None
    return out
