"""The C16 sanitiser contract, written from the property statement."""
import re

_RUN = re.compile(r"[A-Za-z0-9]+")
_ALNUM = set("abcdefghijklmnopqrstuvwxyzABCDEFGHIJKLMNOPQRSTUVWXYZ0123456789")


def ascii_lower(s):
    return "".join(chr(ord(c) + 32) if "A" <= c <= "Z" else c for c in s)


def _strip_zeros(run):
    if run.isdigit():
        t = run.lstrip("0")
        return t if t else "0"
    return run


def full(s, sep=".", lowercase=False, keep_zeros=False):
    runs = _RUN.findall(s)
    if lowercase:
        runs = [ascii_lower(r) for r in runs]
    if not keep_zeros:
        runs = [_strip_zeros(r) for r in runs]
    return sep.join(runs)


def _trim(s, sep):
    """Removes whole separators and, for separators of several characters, the piece of one that a cut left behind
    (separators are non-alphanumeric by the statement's premise, so everything outside the outermost letters/digits goes)."""
    i, j = 0, len(s)
    while i < j and s[i] not in _ALNUM:
        i += 1
    while j > i and s[j - 1] not in _ALNUM:
        j -= 1
    return s[i:j]


def admissible(s, sep=".", lowercase=False, keep_zeros=False, max_length=None):
    """Set of results the statement admits (see DESIGN C16: two truncation
    windows for inputs that start with a non-alphanumeric character)."""
    f = full(s, sep, lowercase, keep_zeros)
    if max_length is None:
        return {f}
    out = {_trim(f[:max_length], sep)}
    if s and s[0] not in _ALNUM:
        out.add(_trim((sep + f)[:max_length], sep))
    if not keep_zeros and sep:
        # a cut can leave an all-digit head of a mixed run ("00a"[:2]); the statement
        # forbids the leading zero, so the zero-stripped form is what is admissible
        # (the unstripped one stays in the set but fails predicates()).
        out |= {sep.join(_strip_zeros(x) for x in o.split(sep)) for o in out}
    return out


def sanitize(s, sep=".", lowercase=False, keep_zeros=False, max_length=None):
    """Canonical single answer (first window)."""
    f = full(s, sep, lowercase, keep_zeros)
    if max_length is None:
        return f
    return _trim(f[:max_length], sep)


def predicates(out, sep, keep_zeros, max_length):
    """Direct predicates from the statement; returns list of failed clause names."""
    bad = []
    if sep:
        # runs of ASCII letters/digits joined by single whole separators, nothing else (also no piece of a separator)
        if out and not re.fullmatch(r"[A-Za-z0-9]+(?:%s[A-Za-z0-9]+)*" % re.escape(sep), out):
            if out.startswith(sep):
                bad.append("leading-sep")
            elif out.endswith(sep):
                bad.append("trailing-sep")
            elif sep + sep in out:
                bad.append("doubled-sep")
            else:
                bad.append("foreign-char")
        if not keep_zeros:
            for seg in out.split(sep):
                if len(seg) > 1 and seg.isdigit() and seg.isascii() and seg[0] == "0":
                    bad.append("leading-zero")
                    break
    if max_length is not None and len(out) > max_length:
        bad.append("too-long")
    return bad


# Unicode White_Space (what Rust's trim() removes); Python's str.strip() additionally removes U+001C..U+001F
_WS = set("\t\n\x0b\x0c\r \x85\xa0\u1680\u2000\u2001\u2002\u2003\u2004\u2005\u2006\u2007\u2008\u2009\u200a\u2028\u2029\u202f\u205f\u3000")


def _trim_ws(s):
    i, j = 0, len(s)
    while i < j and s[i] in _WS:
        i += 1
    while j > i and s[j - 1] in _WS:
        j -= 1
    return s[i:j]


def _uint_core(t, keep_zeros):
    if t and all(c in "0123456789" for c in t):
        if keep_zeros:
            return t
        u = t.lstrip("0")
        return u if u else "0"
    return ""


def uint(s, keep_zeros=False):
    """zerv's reading (surrounding white space ignored); see uint_admissible for what the statement admits"""
    return _uint_core(_trim_ws(s), keep_zeros)


def uint_admissible(s, keep_zeros=False):
    """"the digits of a purely numeric input ... the empty string for anything else": for digits wrapped in white space the statement
    admits both readings (not purely numeric -> "", or the wrapping ignored -> the digits); everything else has one answer"""
    out = {_uint_core(s, keep_zeros)}
    t = _trim_ws(s)
    if t != s:
        out.add(_uint_core(t, keep_zeros))
    return out


def _selftest():
    assert sanitize("feature/test-branch") == "feature.test.branch"
    assert sanitize("Build-ID-0051") == "Build.ID.51"
    assert sanitize("Feature/API-v2", lowercase=True) == "feature.api.v2"
    assert sanitize("000") == "0" and sanitize("a.000.b") == "a.0.b"
    assert sanitize("fé/日本-x") == "f.x"
    assert sanitize("\u0130\u212a", lowercase=True) == ""
    assert admissible("/feature", max_length=4) == {"feat", "fea"}
    assert admissible("ab--cd", sep="--", max_length=3) == {"ab"} and predicates("ab-", "--", False, 3) == ["foreign-char"]
    assert predicates("ab--cd", "--", False, None) == [] and predicates("ab----cd", "--", False, None) == ["doubled-sep"]
    assert predicates("a.b", ".", False, None) == [] and predicates(".a", ".", False, None) == ["leading-sep"] and predicates("a b", ".", False, None) == ["foreign-char"]
    assert uint("007") == "7" and uint("0") == "0" and uint("1a") == "" and uint("") == "" and uint("٣") == ""
    assert uint("\x1f7") == "" and uint(" 7\n") == "7" and uint_admissible(" 7") == {"", "7"} and uint_admissible("7") == {"7"} and uint_admissible("\x1f7") == {""}
    return True


if __name__ == "__main__":
    _selftest()
    print("sanitize ref ok")
