"""C06 rendering rules over (schema, vars) -> SemVer string and PEP 440 string,
written from the property statement / DESIGN Appendix A.3."""
from . import cal
from . import sanitize as san

U32 = 2 ** 32 - 1
LABEL_STR = {"Alpha": "alpha", "Beta": "beta", "Rc": "rc"}
PEP_LABEL = {"Alpha": "a", "Beta": "b", "Rc": "rc"}
SECONDARY = {"Epoch": "epoch", "Post": "post", "Dev": "dev"}


def short_hash(h):
    return None if h is None else h[:8]


def custom_lookup(custom, key):
    cur = custom
    for part in key.split("."):
        if isinstance(cur, dict) and part in cur:
            cur = cur[part]
        else:
            return None
    if isinstance(cur, bool):
        return "true" if cur else "false"
    if isinstance(cur, str):
        return cur
    if isinstance(cur, int):
        return str(cur)
    if isinstance(cur, float):
        return repr(cur)
    return None


def raw_value(comp, v):
    """Text of a component before sanitising; None when unset."""
    kind, val = comp
    if kind == "str":
        return val
    if kind == "uint":
        return str(val)
    if isinstance(val, tuple):
        if val[0] == "ts":
            t = v.get("bumped_timestamp")
            if t is None:
                t = v.get("last_timestamp")
            if t is None:
                return None
            try:
                return cal.resolve(val[1], t)
            except KeyError:
                return None
        return custom_lookup(v.get("custom"), val[1])
    name = val
    num = {"Major": "major", "Minor": "minor", "Patch": "patch", "Epoch": "epoch", "Post": "post", "Dev": "dev",
           "Distance": "distance", "BumpedTimestamp": "bumped_timestamp", "LastTimestamp": "last_timestamp"}
    if name in num:
        x = v.get(num[name])
        return None if x is None else str(x)
    if name == "PreRelease":
        pr = v.get("pre_release")
        return None if pr is None or pr[1] is None else str(pr[1])
    if name == "Dirty":
        d = v.get("dirty")
        return None if d is None else ("true" if d else "false")
    if name == "BumpedBranch":
        return v.get("bumped_branch")
    if name == "LastBranch":
        return v.get("last_branch")
    if name == "BumpedCommitHash":
        return v.get("bumped_commit_hash")
    if name == "LastCommitHash":
        return v.get("last_commit_hash")
    if name == "BumpedCommitHashShort":
        return short_hash(v.get("bumped_commit_hash"))
    if name == "LastCommitHashShort":
        return short_hash(v.get("last_commit_hash"))
    raise KeyError(name)


def _parts(text, lower):
    s = san.sanitize(text, ".", lowercase=lower, keep_zeros=False)
    return [p for p in s.split(".") if p]


U64 = 2 ** 64 - 1


def semver(schema, v, int_limit=U64):
    """Returns (string, notes). notes lists clauses that depend on integer width."""
    notes = []
    nums = []
    pre = []
    build = []
    for c in schema["core"]:
        raw = raw_value(c, v)
        if raw is None:
            continue
        u = san.uint(raw)
        if u != "" and len(nums) < 3:
            if int(u) > int_limit:
                notes.append("core-int-above-limit")
            nums.append(u)
            continue
        pre += _parts(raw, False)
    for c in schema["extra_core"]:
        kind, val = c
        if kind == "var" and val in SECONDARY:
            raw = raw_value(c, v)
            if raw is not None:
                pre += [SECONDARY[val], raw]
            continue
        if kind == "var" and val == "PreRelease":
            pr = v.get("pre_release")
            if pr is not None:
                pre.append(LABEL_STR[pr[0]])
                if pr[1] is not None:
                    pre.append(str(pr[1]))
            continue
        raw = raw_value(c, v)
        if raw is not None:
            pre += _parts(raw, False)
    for c in schema["build"]:
        raw = raw_value(c, v)
        if raw is not None:
            build += _parts(raw, False)
    while len(nums) < 3:
        nums.append("0")
    out = ".".join(nums)
    if pre:
        out += "-" + ".".join(pre)
    if build:
        out += "+" + ".".join(build)
    return out, notes


def pep440(schema, v):
    notes = []
    release = []
    local = []
    epoch = 0
    pre = post = dev = None
    for c in schema["core"]:
        raw = raw_value(c, v)
        if raw is None:
            continue
        u = san.uint(raw)
        if u != "":
            if int(u) > U32:
                notes.append("above-u32")
            release.append(u)
            continue
        local += _parts(raw, True)
    for c in schema["extra_core"]:
        kind, val = c
        if kind == "var" and val in ("Epoch", "Post", "Dev"):
            raw = raw_value(c, v)
            if raw is not None:
                if int(raw) > U32:
                    notes.append("above-u32")
                if val == "Epoch":
                    epoch = int(raw)
                elif val == "Post":
                    post = int(raw)
                else:
                    dev = int(raw)
            continue
        if kind == "var" and val == "PreRelease":
            pr = v.get("pre_release")
            if pr is not None:
                n = pr[1] or 0
                if n > U32:
                    notes.append("above-u32")
                pre = (PEP_LABEL[pr[0]], n)
            continue
        raw = raw_value(c, v)
        if raw is not None:
            local += _parts(raw, True)
    for c in schema["build"]:
        raw = raw_value(c, v)
        if raw is not None:
            local += _parts(raw, True)
    if not release:
        release = ["0"]
    out = ""
    if epoch:
        out += "%d!" % epoch
    out += ".".join(release)
    if pre is not None:
        out += "%s%d" % pre
    if post is not None:
        out += ".post%d" % post
    if dev is not None:
        out += ".dev%d" % dev
    if local:
        out += "+" + ".".join(local)
    # numeric local parts have no limit: zerv keeps one above u32 as its digits (since 35b8d11), so they are judged like any other part
    return out, notes


# ---------------------------------------------------------------------------
# preset schemas
# ---------------------------------------------------------------------------
STD_CORE = [("var", "Major"), ("var", "Minor"), ("var", "Patch")]
CAL_CORE = [("var", ("ts", "YYYY")), ("var", ("ts", "MM")), ("var", ("ts", "DD")), ("var", "Patch")]
CTX = [("var", "BumpedBranch"), ("var", "Distance"), ("var", "BumpedCommitHashShort")]
EXTRA = {
    "base": [("var", "Epoch")],
    "base-prerelease": [("var", "Epoch"), ("var", "PreRelease")],
    "base-prerelease-post": [("var", "Epoch"), ("var", "PreRelease"), ("var", "Post")],
    "base-prerelease-post-dev": [("var", "Epoch"), ("var", "PreRelease"), ("var", "Post"), ("var", "Dev")],
}
PRESETS = []
for fam in ("standard", "calver"):
    PRESETS += [fam, fam + "-no-context", fam + "-context"]
    for t in EXTRA:
        PRESETS += ["%s-%s" % (fam, t), "%s-%s-context" % (fam, t)]


def tier(v):
    dirty = bool(v.get("dirty"))
    dist = (v.get("distance") or 0) > 0
    pre = v.get("pre_release") is not None
    post = v.get("post") is not None
    if dirty:
        return "base-prerelease-post-dev"
    if dist or (pre and post):
        return "base-prerelease-post"
    if pre:
        return "base-prerelease"
    return "base"


def preset_schema(name, v):
    fam = "calver" if name.startswith("calver") else "standard"
    core = list(CAL_CORE if fam == "calver" else STD_CORE)
    rest = name[len(fam):].lstrip("-")
    if rest in ("", "no-context", "context"):
        t = tier(v)
        if rest == "":
            ctx = bool(v.get("dirty")) or (v.get("distance") or 0) > 0
        else:
            ctx = rest == "context"
    else:
        ctx = rest.endswith("-context")
        t = rest[:-len("-context")] if ctx else rest
    return dict(core=core, extra_core=list(EXTRA[t]), build=list(CTX) if ctx else [])
