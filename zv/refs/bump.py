"""The C05 law: override / bump / reset over the eleven precedence levels
(DESIGN Appendix A.1), written from the property statement and the CLI help."""
import copy

U32 = 2 ** 32 - 1
U64 = 2 ** 64 - 1
LEVELS = ["Epoch", "Major", "Minor", "Patch", "Core", "PreReleaseLabel", "PreReleaseNum", "Post", "Dev", "ExtraCore", "Build"]
NUMF = {"Epoch": "epoch", "Major": "major", "Minor": "minor", "Patch": "patch", "Post": "post", "Dev": "dev"}
LABELS = {"alpha": "Alpha", "beta": "Beta", "rc": "Rc"}
SECTION = {"Core": "core", "ExtraCore": "extra_core", "Build": "build"}
VCS_VARS = {"Distance", "Dirty", "BumpedBranch", "BumpedCommitHash", "BumpedCommitHashShort", "BumpedTimestamp",
            "LastBranch", "LastCommitHash", "LastCommitHashShort", "LastTimestamp"}


class Refused(Exception):
    """the law says this request must be rejected without output"""


class Overflow(Refused):
    pass


class Flags:
    """by-name: override[f], bump[f] for f in NUMF keys + 'PreReleaseNum'; label_override, label_bump;
    section ops: sec_override[sec] = [(indexspec, value)], sec_bump[sec] = [(indexspec, value|None)]"""

    def __init__(self):
        self.override = {}
        self.bump = {}
        self.label_override = None
        self.label_bump = None
        self.sec_override = {"Core": [], "ExtraCore": [], "Build": []}
        self.sec_bump = {"Core": [], "ExtraCore": [], "Build": []}


def reset_below(v, level, order):
    i = order.index(level)
    for lv in order[i + 1:]:
        if lv in ("Major", "Minor", "Patch", "Epoch"):
            v[NUMF[lv]] = 0
        elif lv == "PreReleaseLabel":
            v["pre_release"] = None
        elif lv == "PreReleaseNum":
            if v.get("pre_release") is not None:
                v["pre_release"] = (v["pre_release"][0], 0)
        elif lv in ("Post", "Dev"):
            v[NUMF[lv]] = None


def _add(a, b):
    s = a + b
    if s > U64:
        raise Overflow("%d + %d exceeds the integer range" % (a, b))
    return s


def num_op(v, level, ov, bp, order):
    f = NUMF[level]
    if ov is not None:
        v[f] = ov
    if bp is not None:
        v[f] = _add(v.get(f) or 0, bp)
        reset_below(v, level, order)


def prenum_op(v, ov, bp, order):
    if ov is not None:
        pr = v.get("pre_release")
        v["pre_release"] = (pr[0] if pr else "Alpha", ov)
    if bp is not None:
        pr = v.get("pre_release")
        if pr is not None:
            v["pre_release"] = (pr[0], _add(pr[1] or 0, bp))
        else:
            v["pre_release"] = ("Alpha", bp)
        reset_below(v, "PreReleaseNum", order)


def resolve_index(spec, n):
    """'2', '-1', '~1' -> index or Refused"""
    s = str(spec)
    try:
        if s.startswith("~"):
            k = int(s[1:])
            if k <= 0:
                raise Refused("tilde index must be positive")
            i = -k
        else:
            i = int(s)
    except ValueError:
        raise Refused("bad index %r" % s)
    if i < 0:
        i += n
    if i < 0 or i >= n:
        raise Refused("index %s out of range for length %d" % (s, n))
    return i


def _u32(val, what):
    s = str(val)
    if not (s.isdigit() and s.isascii()) or int(s) > U32:
        raise Refused("non-numeric or oversized value %r for %s" % (val, what))
    return int(s)


def section_op(schema, v, level, flags, order):
    comps = schema[SECTION[level]]
    n = len(comps)
    specs = {}
    seen = set()
    for idx, val in flags.sec_override[level]:
        i = resolve_index(idx, n)
        if i in seen:
            raise Refused("duplicate override index %d" % i)
        seen.add(i)
        if isinstance(val, str) and val.lstrip("-").isdigit() and val.startswith("-"):
            raise Refused("negative value")
        specs[i] = [val, None]
    seenb = set()
    for idx, val in flags.sec_bump[level]:
        i = resolve_index(idx, n)
        if i in seenb:
            raise Refused("duplicate bump index %d" % i)
        seenb.add(i)
        if isinstance(val, str) and val.startswith("-") and val[1:].isdigit():
            raise Refused("negative value")
        val = "1" if val is None else val
        specs.setdefault(i, [None, None])[1] = val
    for i in sorted(specs):
        ov, bp = specs[i]
        kind, val = comps[i]
        if kind == "var":
            if isinstance(val, tuple):
                raise Refused("%s component cannot be processed" % val[0])
            if val in VCS_VARS:
                raise Refused("VCS-derived field")
            o = None if ov is None else _u32(ov, val)
            b = None if bp is None else _u32(bp, val)
            if val == "PreRelease":
                prenum_op(v, o, b, order)
            else:
                num_op(v, val, o, b, order)
        elif kind == "uint":
            o = None if ov is None else _u32(ov, "uint")
            b = None if bp is None else _u32(bp, "uint")
            base = val if o is None else o
            comps[i] = ("uint", _add(base, b or 0))
        else:
            cur = val
            if ov is not None:
                cur = ov
            if bp is not None:
                cur = bp
            comps[i] = ("str", cur)


def apply(schema, v, flags, order=None):
    """Returns (schema', vars') or raises Refused."""
    order = list(order or LEVELS)
    schema = copy.deepcopy(schema)
    v = copy.deepcopy(v)
    if flags.label_override is not None and flags.label_bump is not None:
        raise Refused("both label flags")
    for level in order:
        if level in NUMF:
            num_op(v, level, flags.override.get(level), flags.bump.get(level), order)
        elif level == "PreReleaseLabel":
            if flags.label_override is not None:
                if flags.label_override not in LABELS:
                    raise Refused("bad label")
                pr = v.get("pre_release")
                num = flags.override.get("PreReleaseNum")
                if num is None:
                    num = pr[1] if pr and pr[1] is not None else 0
                v["pre_release"] = (LABELS[flags.label_override], num)
            if flags.label_bump is not None:
                if flags.label_bump not in LABELS:
                    raise Refused("bad label")
                reset_below(v, "PreReleaseLabel", order)
                v["pre_release"] = (LABELS[flags.label_bump], 0)
        elif level == "PreReleaseNum":
            prenum_op(v, flags.override.get("PreReleaseNum"), flags.bump.get("PreReleaseNum"), order)
        else:
            section_op(schema, v, level, flags, order)
    if v.get("epoch") == 0:
        v["epoch"] = None
    return schema, v


def highest_level_addressed(schema, flags, order=None):
    """index in `order` of the highest level any flag addresses (None if no flag)."""
    order = list(order or LEVELS)
    hit = []
    for lv in list(flags.override) + list(flags.bump):
        hit.append(order.index(lv))
    if flags.label_override is not None or flags.label_bump is not None:
        hit.append(order.index("PreReleaseLabel"))
        if flags.label_override is not None and flags.override.get("PreReleaseNum") is not None:
            pass
    for sec in ("Core", "ExtraCore", "Build"):
        comps = schema[SECTION[sec]]
        for idx, _ in flags.sec_override[sec] + flags.sec_bump[sec]:
            try:
                i = resolve_index(idx, len(comps))
            except Refused:
                continue
            kind, val = comps[i]
            hit.append(order.index(sec))
            if kind == "var" and not isinstance(val, tuple):
                if val in NUMF:
                    hit.append(order.index(val))
                elif val == "PreRelease":
                    # creating a pre-release sets the label too
                    hit.append(order.index("PreReleaseLabel"))
    if "PreReleaseNum" in flags.override or "PreReleaseNum" in flags.bump:
        hit.append(order.index("PreReleaseLabel"))      # may create the label `alpha`
    return min(hit) if hit else None


def level_value(schema, v, level):
    if level in NUMF:
        return v.get(NUMF[level])
    if level == "PreReleaseLabel":
        return None if v.get("pre_release") is None else v["pre_release"][0]
    if level == "PreReleaseNum":
        return None if v.get("pre_release") is None else v["pre_release"][1]
    return tuple(schema[SECTION[level]])
