"""Build the zerv CLI and the probe from /repo's *current working tree*.

Both executables come from one cargo invocation in /verif/probe (the probe
crate has a second [[bin]] whose source is /repo/src/main.rs, so the shipped
CLI is compiled against the very same zerv lib build as the probe).  The result
is copied to a content-addressed directory so that a tree edited while a long
run is in flight can never swap a binary under a running monitor.
"""
import fcntl
import hashlib
import os
import shutil
import subprocess
import sys
import time

VERIF = os.path.dirname(os.path.dirname(os.path.abspath(__file__)))
REPO = os.environ.get("ZERV_VERIF_REPO", "/repo")
CACHE = os.environ.get("ZERV_VERIF_CACHE") or os.path.join(VERIF, ".cache")
TARGET = os.path.join(CACHE, "target")
BIN = os.path.join(CACHE, "bin")


class BuildError(Exception):
    pass


def tree_hash():
    h = hashlib.sha256()
    roots = ["src", "python", "docs/llms.md", "Cargo.toml", "Cargo.lock", "build.rs", "rust-toolchain.toml", ".cargo"]
    files = []
    for r in roots:
        p = os.path.join(REPO, r)
        if os.path.isfile(p):
            files.append(p)
        elif os.path.isdir(p):
            for d, dn, fn in os.walk(p):
                dn[:] = sorted(x for x in dn if x != "__pycache__")
                for f in sorted(fn):
                    if f.endswith((".pyc", ".so")):
                        continue
                    files.append(os.path.join(d, f))
    for f in sorted(files):
        h.update(os.path.relpath(f, REPO).encode() + b"\0")
        try:
            with open(f, "rb") as fh:
                h.update(hashlib.sha256(fh.read()).digest())
        except OSError:
            h.update(b"?")
    # the probe and shims are part of what gets built
    for f in ("probe/Cargo.toml", "probe/src/main.rs", "shims/fakeclock.c", "shims/gitshim.c"):
        with open(os.path.join(VERIF, f), "rb") as fh:
            h.update(hashlib.sha256(fh.read()).digest())
    # tools/coverage.sh builds an instrumented copy (never used by a registered check)
    h.update((os.environ.get("ZERV_VERIF_RUSTFLAGS", "") + "|" + os.environ.get("ZERV_VERIF_TOOLCHAIN", "")).encode())
    return h.hexdigest()[:20]


def _repo_toolchain():
    """Use the toolchain /repo pins (rust-toolchain.toml) when it is installed."""
    try:
        import re
        txt = open(os.path.join(REPO, "rust-toolchain.toml")).read()
        m = re.search(r'channel\s*=\s*"([^"]+)"', txt)
        if not m:
            return None
        ch = m.group(1)
        r = subprocess.run(["rustup", "toolchain", "list"], capture_output=True, text=True)
        for line in r.stdout.splitlines():
            if line.startswith(ch + "-") or line.split()[0] == ch:
                return ch
    except Exception:
        pass
    return None


def _cc(src, out, extra):
    tmp = out + ".tmp%d" % os.getpid()
    cmd = ["cc", "-O2"] + extra + ["-o", tmp, src]
    r = subprocess.run(cmd, capture_output=True, text=True)
    if r.returncode != 0:
        raise BuildError("cc failed: %s\n%s" % (" ".join(cmd), r.stderr))
    os.replace(tmp, out)


def ensure(verbose=True):
    """Returns dict(zerv=..., probe=..., clock=..., gitshim_dir=..., hash=...)."""
    os.makedirs(CACHE, exist_ok=True)
    os.makedirs(BIN, exist_ok=True)
    lock = open(os.path.join(CACHE, "build.lock"), "w")
    fcntl.flock(lock, fcntl.LOCK_EX)
    try:
        th = tree_hash()
        out = os.path.join(BIN, th)
        res = dict(
            zerv=os.path.join(out, "zerv"),
            probe=os.path.join(out, "zerv-probe"),
            clock=os.path.join(out, "libfakeclock.so"),
            gitshim_dir=os.path.join(out, "gitshim"),
            hash=th,
        )
        if all(os.path.exists(res[k]) for k in ("zerv", "probe", "clock")) and os.path.exists(
            os.path.join(res["gitshim_dir"], "git")
        ):
            return res
        t0 = time.time()
        probe_dir = os.path.join(VERIF, "probe")
        if REPO != "/repo":
            # alternate repository (tools/eval_seeded.py --parallel): a private copy of the probe crate pointing at it
            probe_dir = os.path.join(CACHE, "probe")
            os.makedirs(os.path.join(probe_dir, "src"), exist_ok=True)
            with open(os.path.join(VERIF, "probe", "Cargo.toml")) as f:
                toml = f.read().replace('"/repo"', '"%s"' % REPO).replace('"/repo/src/main.rs"', '"%s/src/main.rs"' % REPO)
            with open(os.path.join(probe_dir, "Cargo.toml"), "w") as f:
                f.write(toml)
            shutil.copyfile(os.path.join(VERIF, "probe", "src", "main.rs"), os.path.join(probe_dir, "src", "main.rs"))
        lockfile = os.path.join(probe_dir, "Cargo.lock")
        shutil.copyfile(os.path.join(REPO, "Cargo.lock"), lockfile)
        env = dict(os.environ)
        env.update(CARGO_NET_OFFLINE="true", CARGO_TARGET_DIR=TARGET)
        env.pop("RUSTFLAGS", None)
        if os.environ.get("ZERV_VERIF_RUSTFLAGS"):
            env["RUSTFLAGS"] = os.environ["ZERV_VERIF_RUSTFLAGS"]
        tc = os.environ.get("ZERV_VERIF_TOOLCHAIN") or _repo_toolchain()
        if tc:
            env["RUSTUP_TOOLCHAIN"] = tc
        cmd = ["cargo", "build", "--release", "--offline", "--bins"]
        r = subprocess.run(cmd, cwd=probe_dir, env=env, capture_output=True, text=True)
        if r.returncode != 0:
            raise BuildError("cargo build failed:\n" + r.stderr[-6000:])
        tmp = out + ".tmp%d" % os.getpid()
        shutil.rmtree(tmp, ignore_errors=True)
        os.makedirs(os.path.join(tmp, "gitshim"))
        shutil.copy2(os.path.join(TARGET, "release", "zerv"), os.path.join(tmp, "zerv"))
        shutil.copy2(os.path.join(TARGET, "release", "zerv-probe"), os.path.join(tmp, "zerv-probe"))
        _cc(os.path.join(VERIF, "shims", "fakeclock.c"), os.path.join(tmp, "libfakeclock.so"), ["-shared", "-fPIC", "-ldl"])
        _cc(os.path.join(VERIF, "shims", "gitshim.c"), os.path.join(tmp, "gitshim", "git"), [])
        shutil.rmtree(out, ignore_errors=True)
        os.replace(tmp, out)
        # prune old outputs (keep the 6 most recent)
        ds = sorted((os.path.getmtime(os.path.join(BIN, d)), d) for d in os.listdir(BIN) if ".tmp" not in d)
        for _, d in ds[:-6]:
            shutil.rmtree(os.path.join(BIN, d), ignore_errors=True)
        if verbose:
            print("[build] tree %s built in %.1fs" % (th, time.time() - t0), file=sys.stderr)
        return res
    finally:
        fcntl.flock(lock, fcntl.LOCK_UN)
        lock.close()


if __name__ == "__main__":
    try:
        print(ensure())
    except BuildError as e:
        print(str(e), file=sys.stderr)
        sys.exit(2)
