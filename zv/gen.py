"""Shared generators of hostile values."""
import random

NONASCII_ALNUM = ["é", "ß", "İ", "K", "ſ", "日本", "٣", "𝟘", "ǅ", "Ω", "ñ", "Ж", "１２", "²", "ⅷ"]
NONASCII_OTHER = ["́", "😀", "‏", " ", "—", "·", " ", "﻿", "\u0085"]
ASCII_PUNCT = list("/-_.@#$%^&*()[]{}<>~!?,;:'\"\\|`+= ")
CONTROL = ["\t", "\n", "\r", "\x0b", "\x1f", "\x7f"]
WORDS = ["feature", "Release", "API", "v2", "0051", "000", "0", "007", "hotfix", "x", "A", "main", "DEV", "10", "1a", "a1", "00a"]
# values that look like what CI systems hand over: full ref names, remote-tracking names, pull-request refs
REFLIKE = ["refs/heads/main", "refs/heads/feature/x", "refs/tags/v1.2.3", "refs/pull/12/merge", "origin/main", "remotes/origin/release/3", "HEAD", "heads/main", "refs/heads/"]


def hostile_text(rng, maxparts=6, allow_control=True, allow_empty=True):
    """Free text as it may appear in branch names, hashes, custom values."""
    r = rng.random()
    if allow_empty and r < 0.03:
        return ""
    if r < 0.06:
        return rng.choice(WORDS) * rng.randrange(20, 80)
    if r < 0.10:
        return rng.choice(REFLIKE) + (rng.choice(WORDS) if rng.random() < 0.3 else "")
    n = rng.randrange(1, maxparts + 1)
    parts = []
    for _ in range(n):
        k = rng.random()
        if k < 0.45:
            parts.append(rng.choice(WORDS))
        elif k < 0.70:
            parts.append(rng.choice(ASCII_PUNCT) * rng.choice([1, 1, 2, 3]))
        elif k < 0.85:
            parts.append(rng.choice(NONASCII_ALNUM))
        elif k < 0.95 or not allow_control:
            parts.append(rng.choice(NONASCII_OTHER))
        else:
            parts.append(rng.choice(CONTROL))
    return "".join(parts)


def ascii_text(rng, maxparts=5):
    if rng.random() < 0.05:
        return rng.choice(REFLIKE)
    n = rng.randrange(1, maxparts + 1)
    parts = []
    for _ in range(n):
        if rng.random() < 0.6:
            parts.append(rng.choice(WORDS))
        else:
            parts.append(rng.choice("/-_.") * rng.choice([1, 1, 2]))
    return "".join(parts)


def random_unicode(rng, maxlen=12):
    n = rng.randrange(0, maxlen + 1)
    out = []
    for _ in range(n):
        k = rng.random()
        if k < 0.4:
            out.append(chr(rng.randrange(0x20, 0x7f)))
        elif k < 0.6:
            out.append(chr(rng.randrange(0xa0, 0x250)))
        elif k < 0.75:
            out.append(chr(rng.choice([rng.randrange(0x370, 0x400), rng.randrange(0x400, 0x500), rng.randrange(0x660, 0x66a),
                                       rng.randrange(0x3040, 0x30ff), rng.randrange(0x4e00, 0x4f00), rng.randrange(0xff10, 0xff5b)])))
        elif k < 0.85:
            out.append(chr(rng.randrange(0x1d7ce, 0x1d800)))
        elif k < 0.95:
            out.append(rng.choice(NONASCII_ALNUM + NONASCII_OTHER))
        else:
            c = rng.randrange(0x1, 0x20)
            out.append(chr(c))
    return "".join(out)


NUMBER_EDGES = [0, 1, 9, 10, 99, 2 ** 31, 2 ** 32 - 2, 2 ** 32 - 1]
BIG_NUMBERS = [2 ** 32, 2 ** 32 + 1, 2 ** 63, 2 ** 64 - 1, 2 ** 64, 10 ** 30]
