"""Independent reader/writer for the RON subset zerv emits and accepts.

Reader output:
  struct        -> Struct(name|None, {field: value})     (dict subclass keeps order)
  Name(args..)  -> Call(name, [args])   e.g. Some(1), var(Major), ts("YYYY")
  bare ident    -> Id("None"), Id("Major"), ...  (true/false -> bool)
  [..] -> list ; {k: v} -> Map (list of pairs, keys may repeat) ; "..." -> str ;
  numbers -> int | float ; () -> None (unit)
"""


class RonError(Exception):
    pass


class Id(str):
    def __repr__(self):
        return "Id(%s)" % str.__repr__(self)


class Call(object):
    __slots__ = ("name", "args")

    def __init__(self, name, args):
        self.name = name
        self.args = args

    def __repr__(self):
        return "Call(%r, %r)" % (self.name, self.args)

    def __eq__(self, o):
        return isinstance(o, Call) and o.name == self.name and o.args == self.args


class Struct(dict):
    name = None


class Map(list):
    """list of (key, value) pairs"""


_WS = " \t\r\n"
_IDSTART = "abcdefghijklmnopqrstuvwxyzABCDEFGHIJKLMNOPQRSTUVWXYZ_"
_IDCONT = _IDSTART + "0123456789"


class _P:
    def __init__(self, s):
        self.s = s
        self.i = 0

    def err(self, msg):
        raise RonError("%s at offset %d" % (msg, self.i))

    def ws(self):
        s = self.s
        while self.i < len(s):
            c = s[self.i]
            if c in _WS:
                self.i += 1
            elif s.startswith("//", self.i):
                j = s.find("\n", self.i)
                self.i = len(s) if j < 0 else j + 1
            elif s.startswith("/*", self.i):
                j = s.find("*/", self.i + 2)
                if j < 0:
                    self.err("unterminated comment")
                self.i = j + 2
            else:
                break

    def peek(self):
        return self.s[self.i] if self.i < len(self.s) else ""

    def expect(self, c):
        self.ws()
        if self.peek() != c:
            self.err("expected %r" % c)
        self.i += 1

    def ident(self):
        j = self.i
        s = self.s
        if j < len(s) and s[j] in _IDSTART:
            j += 1
            while j < len(s) and s[j] in _IDCONT:
                j += 1
        out = s[self.i:j]
        self.i = j
        return out

    def string(self):
        s = self.s
        assert s[self.i] == '"'
        self.i += 1
        out = []
        while True:
            if self.i >= len(s):
                self.err("unterminated string")
            c = s[self.i]
            if c == '"':
                self.i += 1
                return "".join(out)
            if c == "\\":
                self.i += 1
                e = self.peek()
                self.i += 1
                if e == "n":
                    out.append("\n")
                elif e == "r":
                    out.append("\r")
                elif e == "t":
                    out.append("\t")
                elif e == "0":
                    out.append("\0")
                elif e in "\\\"'":
                    out.append(e)
                elif e == "x":
                    out.append(chr(int(s[self.i:self.i + 2], 16)))
                    self.i += 2
                elif e == "u":
                    if self.peek() != "{":
                        self.err("bad \\u escape")
                    j = s.find("}", self.i)
                    out.append(chr(int(s[self.i + 1:j], 16)))
                    self.i = j + 1
                else:
                    self.err("bad escape \\%s" % e)
            else:
                out.append(c)
                self.i += 1

    def number(self):
        s = self.s
        j = self.i
        if j < len(s) and s[j] in "+-":
            j += 1
        k = j
        while k < len(s) and (s[k].isdigit() and s[k].isascii() or s[k] in "._eE+-xXabcdefABCDEFinfNa"):
            # stop at characters that cannot continue a number in context
            if s[k] in "+-" and s[k - 1] not in "eE":
                break
            k += 1
        tok = s[self.i:k].replace("_", "")
        self.i = k
        try:
            if tok.lower().lstrip("+-").startswith("0x"):
                return int(tok, 16)
            if any(c in tok for c in ".eE") or "inf" in tok or "NaN" in tok:
                return float(tok)
            return int(tok)
        except ValueError:
            self.err("bad number %r" % tok)

    def value(self):
        self.ws()
        c = self.peek()
        if c == "":
            self.err("unexpected end")
        if c == '"':
            return self.string()
        if c == "[":
            self.i += 1
            out = []
            while True:
                self.ws()
                if self.peek() == "]":
                    self.i += 1
                    return out
                out.append(self.value())
                self.ws()
                if self.peek() == ",":
                    self.i += 1
                elif self.peek() != "]":
                    self.err("expected , or ]")
        if c == "{":
            self.i += 1
            out = Map()
            while True:
                self.ws()
                if self.peek() == "}":
                    self.i += 1
                    return out
                k = self.value()
                self.expect(":")
                v = self.value()
                out.append((k, v))
                self.ws()
                if self.peek() == ",":
                    self.i += 1
                elif self.peek() != "}":
                    self.err("expected , or }")
        if c == "(":
            return self.paren(None)
        if c in "+-0123456789":
            return self.number()
        if c in _IDSTART:
            name = self.ident()
            save = self.i
            self.ws()
            if self.peek() == "(":
                return self.paren(name)
            self.i = save
            if name == "true":
                return True
            if name == "false":
                return False
            if name in ("inf", "NaN"):
                return float(name.lower())
            return Id(name)
        self.err("unexpected character %r" % c)

    def paren(self, name):
        """after optional name: '(' ... ')' -> struct (field: v) | tuple/call | unit"""
        self.expect("(")
        self.ws()
        if self.peek() == ")":
            self.i += 1
            if name is None:
                return None
            return Call(name, [])
        # struct if ident followed by ':'
        save = self.i
        if self.peek() in _IDSTART:
            ident = self.ident()
            self.ws()
            if self.peek() == ":":
                self.i = save
                st = Struct()
                st.name = name
                while True:
                    self.ws()
                    if self.peek() == ")":
                        self.i += 1
                        return st
                    k = self.ident()
                    if not k:
                        self.err("expected field name")
                    self.expect(":")
                    v = self.value()
                    if k in st:
                        self.err("duplicate field %s" % k)
                    st[k] = v
                    self.ws()
                    if self.peek() == ",":
                        self.i += 1
                    elif self.peek() != ")":
                        self.err("expected , or )")
            self.i = save
        args = []
        while True:
            self.ws()
            if self.peek() == ")":
                self.i += 1
                break
            args.append(self.value())
            self.ws()
            if self.peek() == ",":
                self.i += 1
            elif self.peek() != ")":
                self.err("expected , or )")
        if name is None:
            return Call("", args)
        return Call(name, args)


def loads(text):
    p = _P(text)
    v = p.value()
    p.ws()
    if p.i != len(text):
        p.err("trailing characters")
    return v


# ---------------------------------------------------------------------------
# writer
# ---------------------------------------------------------------------------
def quote(s):
    out = ['"']
    for c in s:
        if c == '"':
            out.append('\\"')
        elif c == "\\":
            out.append("\\\\")
        elif c == "\n":
            out.append("\\n")
        elif c == "\r":
            out.append("\\r")
        elif c == "\t":
            out.append("\\t")
        elif ord(c) < 0x20 or ord(c) == 0x7f:
            out.append("\\u{%x}" % ord(c))
        else:
            out.append(c)
    out.append('"')
    return "".join(out)


def dump_json(v):
    """serde_json::Value as RON (how zerv's custom vars travel)."""
    if v is None:
        return "()"
    if v is True:
        return "true"
    if v is False:
        return "false"
    if isinstance(v, int):
        return str(v)
    if isinstance(v, float):
        r = repr(v)
        if "e" in r or "E" in r or "inf" in r or "nan" in r:
            # expand to plain decimal the way zerv prints floats
            r = "%f" % v if abs(v) < 1e15 else ("%d.0" % int(v))
        if "." not in r:
            r += ".0"
        return r
    if isinstance(v, str):
        return quote(v)
    if isinstance(v, list):
        return "[" + ", ".join(dump_json(x) for x in v) + "]"
    if isinstance(v, dict):
        return "{" + ", ".join("%s: %s" % (quote(k), dump_json(x)) for k, x in v.items()) + "}"
    raise TypeError(v)


def json_of(v):
    """RON value (as read by loads) -> JSON-like Python value (for custom)."""
    if isinstance(v, Id):
        # a bare identifier in a self-describing position is a unit value in RON (serde_json reads it as null),
        # not a string: `"flag": fale` denotes {"flag": null}
        return None
    if v is None or isinstance(v, (bool, int, float, str)):
        return v
    if isinstance(v, Map):
        out = {}
        for k, x in v:
            out[k] = json_of(x)
        return out
    if isinstance(v, list):
        return [json_of(x) for x in v]
    if isinstance(v, Struct) and not v:
        return {}
    raise RonError("not a JSON-shaped RON value: %r" % (v,))


# ---------------------------------------------------------------------------
# Zerv objects
# ---------------------------------------------------------------------------
VAR_NAMES = ["Major", "Minor", "Patch", "Epoch", "PreRelease", "Post", "Dev", "Distance", "Dirty", "BumpedBranch",
             "BumpedCommitHash", "BumpedCommitHashShort", "BumpedTimestamp", "LastBranch", "LastCommitHash",
             "LastCommitHashShort", "LastTimestamp"]
PRECEDENCE = ["Epoch", "Major", "Minor", "Patch", "Core", "PreReleaseLabel", "PreReleaseNum", "Post", "Dev", "ExtraCore", "Build"]
VAR_FIELDS = ["major", "minor", "patch", "epoch", "pre_release", "post", "dev", "distance", "dirty", "bumped_branch",
              "bumped_commit_hash", "bumped_timestamp", "last_branch", "last_commit_hash", "last_timestamp", "last_tag_version", "custom"]


def comp_to_ron(c):
    """component: ("var","Major") | ("var",("ts","YYYY")) | ("var",("custom","a.b")) | ("str","x") | ("uint",5)"""
    kind, val = c
    if kind == "var":
        if isinstance(val, tuple):
            return "var(%s(%s))" % (val[0], quote(val[1]))
        return "var(%s)" % val
    if kind == "str":
        return "str(%s)" % quote(val)
    if kind == "uint":
        return "uint(%d)" % val
    raise ValueError(c)


def schema_to_ron(schema, with_precedence=False):
    out = "(core: [%s], extra_core: [%s], build: [%s]" % (
        ", ".join(comp_to_ron(c) for c in schema["core"]),
        ", ".join(comp_to_ron(c) for c in schema["extra_core"]),
        ", ".join(comp_to_ron(c) for c in schema["build"]))
    if schema.get("precedence_order") is not None:
        out += ", precedence_order: [%s]" % ", ".join(schema["precedence_order"])
    elif with_precedence:
        out += ", precedence_order: [%s]" % ", ".join(PRECEDENCE)
    return out + ")"


def _opt(v, f=str):
    return "None" if v is None else "Some(%s)" % f(v)


def vars_to_ron(v):
    pre = v.get("pre_release")
    if pre is None:
        pre_s = "None"
    else:
        pre_s = "Some((label: %s, number: %s))" % (pre[0], _opt(pre[1]))
    fields = [
        ("major", _opt(v.get("major"))), ("minor", _opt(v.get("minor"))), ("patch", _opt(v.get("patch"))),
        ("epoch", _opt(v.get("epoch"))), ("pre_release", pre_s), ("post", _opt(v.get("post"))), ("dev", _opt(v.get("dev"))),
        ("distance", _opt(v.get("distance"))),
        ("dirty", "None" if v.get("dirty") is None else "Some(%s)" % ("true" if v["dirty"] else "false")),
        ("bumped_branch", _opt(v.get("bumped_branch"), quote)), ("bumped_commit_hash", _opt(v.get("bumped_commit_hash"), quote)),
        ("bumped_timestamp", _opt(v.get("bumped_timestamp"))),
        ("last_branch", _opt(v.get("last_branch"), quote)), ("last_commit_hash", _opt(v.get("last_commit_hash"), quote)),
        ("last_timestamp", _opt(v.get("last_timestamp"))), ("last_tag_version", _opt(v.get("last_tag_version"), quote)),
        ("custom", dump_json(v.get("custom")) if v.get("custom") is not None else "()"),
    ]
    return "(" + ", ".join("%s: %s" % kv for kv in fields) + ")"


def zerv_to_ron(schema, vars_):
    return "(schema: %s, vars: %s)" % (schema_to_ron(schema), vars_to_ron(vars_))


def _comp_from(v):
    if not isinstance(v, Call) or len(v.args) != 1:
        raise RonError("bad component %r" % (v,))
    a = v.args[0]
    if v.name == "var":
        if isinstance(a, Id):
            return ("var", str(a))
        if isinstance(a, Call) and a.name in ("ts", "custom") and len(a.args) == 1 and isinstance(a.args[0], str):
            return ("var", (a.name, a.args[0]))
        raise RonError("bad var %r" % (a,))
    if v.name == "str" and isinstance(a, str):
        return ("str", a)
    if v.name == "uint" and isinstance(a, int):
        return ("uint", a)
    raise RonError("bad component %r" % (v,))


def _unopt(v):
    if isinstance(v, Id) and v == "None":
        return None
    if isinstance(v, Call) and v.name == "Some" and len(v.args) == 1:
        return v.args[0]
    raise RonError("expected Option, got %r" % (v,))


def decode_zerv(text):
    """Zerv RON text -> (schema dict, vars dict) in the generator's own vocabulary."""
    doc = loads(text)
    if not isinstance(doc, Struct) or "schema" not in doc or "vars" not in doc:
        raise RonError("not a Zerv document")
    s = doc["schema"]
    schema = dict(core=[_comp_from(c) for c in s.get("core", [])], extra_core=[_comp_from(c) for c in s.get("extra_core", [])],
                  build=[_comp_from(c) for c in s.get("build", [])])
    if "precedence_order" in s:
        schema["precedence_order"] = [str(x) for x in s["precedence_order"]]
    v = doc["vars"]
    out = {}
    for k in VAR_FIELDS:
        if k == "custom":
            out[k] = json_of(v[k]) if k in v else None
        elif k == "pre_release":
            pr = _unopt(v[k]) if k in v else None
            if pr is None:
                out[k] = None
            else:
                out[k] = (str(pr["label"]), _unopt(pr["number"]) if "number" in pr else None)
        else:
            out[k] = _unopt(v[k]) if k in v else None
    extra = [k for k in v if k not in VAR_FIELDS]
    if extra:
        out["__extra__"] = extra
    return schema, out


def _selftest():
    t = '''( schema: ( core: [ var(Major), var(ts("YYYY")), str("a\\"b"), uint(7), var(custom("x.y")) ], extra_core: [var(Epoch),], build: [], ),
      vars: ( major: Some(1), minor: None, patch: Some(18446744073709551615), epoch: None,
        pre_release: Some(( label: Rc, number: Some(1), )), post: None, dev: None, distance: Some(3), dirty: Some(true),
        bumped_branch: Some("a\\"b\\\\c\\nd\\t\\u{e9}"), bumped_commit_hash: None, bumped_timestamp: None, last_branch: None,
        last_commit_hash: None, last_timestamp: None, last_tag_version: None,
        custom: { "a": 1, "b": [1, 2.5, (), true, {"c": "d"}], "e": -0.0, "i": {}, "j": [] }, ), )'''
    s, v = decode_zerv(t)
    assert s["core"] == [("var", "Major"), ("var", ("ts", "YYYY")), ("str", 'a"b'), ("uint", 7), ("var", ("custom", "x.y"))], s
    assert v["patch"] == 2 ** 64 - 1 and v["pre_release"] == ("Rc", 1) and v["dirty"] is True
    assert v["bumped_branch"] == 'a"b\\c\nd\t\xe9'
    assert v["custom"] == {"a": 1, "b": [1, 2.5, None, True, {"c": "d"}], "e": -0.0, "i": {}, "j": []}
    s2, v2 = decode_zerv(zerv_to_ron(s, v))
    assert (s2, v2) == (s, v), (s2, v2)
    for bad in ["(", "(a: 1", "[1,", '"abc', "(a: 1) x", "{1: }", "(a 1)"]:
        try:
            loads(bad)
        except RonError:
            continue
        raise AssertionError(bad)
    return True


if __name__ == "__main__":
    _selftest()
    print("ron ok")
