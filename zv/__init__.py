"""zv: runtime-monitoring framework for the 18 zerv properties (see /verif/DESIGN.md)."""
