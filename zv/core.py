"""Shared runtime: context, subprocess runner, probe client, parallel map,
evidence writer, known-findings matcher, replay files."""
import hashlib
import json
import multiprocessing as mp
import os
import random
import shutil
import subprocess
import sys
import tempfile
import time
import traceback

from . import build

VERIF = build.VERIF
EVID = os.environ.get("ZERV_VERIF_EVIDENCE") or os.path.join(VERIF, "evidence")
REPLAYS = os.path.join(EVID, "replays")
FINDINGS = os.path.join(VERIF, "known_findings.json")
NCPU = min(16, os.cpu_count() or 4)
PINNED_NOW = 1790000000  # default pinned wall clock (2026-09-21T13:33:20Z)
REAL_GIT = shutil.which("git") or "/usr/bin/git"


class Inconclusive(Exception):
    pass


# ----------------------------------------------------------------------------
# environment for child processes
# ----------------------------------------------------------------------------
_BASE_ENV = None


def base_env(bins, home=None, now=PINNED_NOW, clocklog=None, gitlog=None, gitfail=None,
             use_gitshim=False, extra=None, tz="UTC"):
    env = {
        "PATH": "/usr/local/bin:/usr/bin:/bin",
        "HOME": home or "/nonexistent-zerv-verif-home",
        "GIT_CONFIG_NOSYSTEM": "1",
        "GIT_CONFIG_GLOBAL": "/dev/null",
        "GIT_AUTHOR_NAME": "V", "GIT_AUTHOR_EMAIL": "v@example.invalid",
        "GIT_COMMITTER_NAME": "V", "GIT_COMMITTER_EMAIL": "v@example.invalid",
        "LANG": "C.UTF-8",
        "TZ": tz,
        "GIT_TERMINAL_PROMPT": "0",
    }
    if os.environ.get("ZERV_VERIF_PROFILE"):        # tools/coverage.sh: instrumented build, profiles merged on line
        env["LLVM_PROFILE_FILE"] = os.environ["ZERV_VERIF_PROFILE"]
    if now is not None and bins.get("clock"):
        env["LD_PRELOAD"] = bins["clock"]
        env["ZERV_VERIF_NOW"] = str(now)
        if clocklog:
            env["ZERV_VERIF_CLOCKLOG"] = clocklog
    if use_gitshim or gitlog or gitfail:
        env["PATH"] = bins["gitshim_dir"] + ":" + env["PATH"]
        env["ZERV_VERIF_REAL_GIT"] = REAL_GIT
        if gitlog:
            env["ZERV_VERIF_GITLOG"] = gitlog
        if gitfail:
            env["ZERV_VERIF_GIT_FAIL"] = gitfail
    if extra:
        for k, v in extra.items():
            if v is None:
                env.pop(k, None)
            else:
                env[k] = v
    return env


MEM_LIMIT = 8 << 30    # address-space ceiling for every zerv run: an input-driven allocation loop must not take the machine down


def _limit_memory():
    import resource
    resource.setrlimit(resource.RLIMIT_AS, (MEM_LIMIT, MEM_LIMIT))


def run_zerv(bins, argv, stdin=None, env=None, cwd=None, timeout=60):
    """Run the real zerv binary. Returns dict(exit, out, err, timeout)."""
    if env is None:
        env = base_env(bins)
    data = None
    stdin_arg = subprocess.DEVNULL
    if stdin is not None:
        data = stdin if isinstance(stdin, bytes) else stdin.encode("utf-8", "surrogatepass")
        stdin_arg = subprocess.PIPE
    try:
        p = subprocess.Popen([bins["zerv"]] + list(argv), stdin=stdin_arg, stdout=subprocess.PIPE,
                             stderr=subprocess.PIPE, env=env, cwd=cwd or "/", preexec_fn=_limit_memory)
    except (OSError, ValueError) as e:
        return dict(exit=None, out="", err="spawn: %r" % (e,), timeout=False, spawn_error=True)
    try:
        out, err = p.communicate(data, timeout=timeout)
    except subprocess.TimeoutExpired:
        p.kill()
        out, err = p.communicate()
        return dict(exit=None, out=out.decode("utf-8", "replace"), err=err.decode("utf-8", "replace"), timeout=True)
    return dict(exit=p.returncode, out=out.decode("utf-8", "replace"), err=err.decode("utf-8", "replace"),
                timeout=False, out_bytes_ok=_is_utf8(out))


def _is_utf8(b):
    try:
        b.decode("utf-8")
        return True
    except UnicodeDecodeError:
        return False


# ----------------------------------------------------------------------------
# probe client
# ----------------------------------------------------------------------------
class Probe:
    def __init__(self, bins, env=None, cwd="/"):
        self.bins = bins
        self.env = env if env is not None else base_env(bins)
        self.cwd = cwd
        self.p = None
        self._start()

    def _start(self):
        self.p = subprocess.Popen([self.bins["probe"]], stdin=subprocess.PIPE, stdout=subprocess.PIPE,
                                  stderr=subprocess.DEVNULL, env=self.env, cwd=self.cwd)

    def call(self, req):
        line = json.dumps(req, ensure_ascii=True).encode() + b"\n"
        try:
            self.p.stdin.write(line)
            self.p.stdin.flush()
            reply = self.p.stdout.readline()
        except (BrokenPipeError, OSError):
            reply = b""
        if not reply:
            rc = self.p.poll()
            self.close()
            self._start()
            return {"probe_died": True, "rc": rc}
        return json.loads(reply)

    def close(self):
        try:
            self.p.stdin.close()
        except Exception:
            pass
        try:
            self.p.wait(timeout=5)
        except Exception:
            self.p.kill()


_WORKER = {}


def worker_probe(bins, key="default", env=None):
    """One probe per worker process (and per env key)."""
    k = (os.getpid(), key)
    pr = _WORKER.get(k)
    if pr is None:
        pr = Probe(bins, env=env)
        _WORKER[k] = pr
    return pr


def _call_star(args):
    f, a = args
    try:
        return ("ok", f(*a))
    except Inconclusive as e:
        return ("inconclusive", str(e))
    except Exception:
        return ("exc", traceback.format_exc())


_POOL = None


def pool():
    global _POOL
    if _POOL is None:
        ctx = mp.get_context("fork")
        _POOL = ctx.Pool(NCPU)
    return _POOL


def pmap(func, arglist, chunksize=1):
    """Parallel map of a top-level function over argument tuples. A worker
    exception is a harness error -> Inconclusive (never a violation)."""
    arglist = list(arglist)
    if not arglist:
        return []
    if os.environ.get("ZV_SERIAL") == "1" or len(arglist) == 1:
        res = [_call_star((func, a)) for a in arglist]
    else:
        res = pool().map(_call_star, [(func, a) for a in arglist], chunksize=chunksize)
    out = []
    for tag, v in res:
        if tag == "ok":
            out.append(v)
        elif tag == "inconclusive":
            raise Inconclusive(v)
        else:
            raise Inconclusive("harness exception in worker:\n" + v)
    return out


# ----------------------------------------------------------------------------
# known findings
# ----------------------------------------------------------------------------
def load_findings():
    try:
        with open(FINDINGS) as f:
            data = json.load(f)
    except FileNotFoundError:
        return []
    return data.get("findings", [])


# ----------------------------------------------------------------------------
# context: collects events, violations, evidence
# ----------------------------------------------------------------------------
class Ctx:
    def __init__(self, prop, tier, seed, bins, level="exploration"):
        self.prop = prop
        self.tier = tier
        self.seed = seed
        self.bins = bins
        self.level = level
        self.t0 = time.time()
        self.rng = random.Random("%s/%s" % (prop, seed))
        self.evaluations = 0
        self.distinct = set()       # hashes of distinct non-trivial cases
        self.distinct_extra = 0     # distinct-by-construction cases counted by workers
        self.samples = []
        self.counters = {}
        self.violations = []        # (sig, replay_path)
        self.known_seen = {}        # key -> count
        self.known_example = {}
        self.inconclusive_events = 0
        self.notes = []
        self.rule = ""
        self.assumptions = []
        self.exhaustive = False
        self._known = {}
        for f in load_findings():
            if f.get("property") == prop and f.get("status") == "known":
                self._known[f["key"]] = f
        self._fixed = {f["key"]: f for f in load_findings() if f.get("property") == prop and f.get("status") == "fixed"}
        self.tmp = tempfile.mkdtemp(prefix="zv-%s-" % prop)
        self.max_reported = 25
        self._replay_n = 0
        os.makedirs(REPLAYS, exist_ok=True)

    # -- bookkeeping --------------------------------------------------------
    def count(self, key, n=1):
        self.counters[key] = self.counters.get(key, 0) + n

    def merge_counts(self, d):
        for k, v in d.items():
            self.counters[k] = self.counters.get(k, 0) + v

    def note_distinct(self, obj):
        h = hashlib.blake2b(repr(obj).encode("utf-8", "surrogatepass"), digest_size=8).digest()
        self.distinct.add(h)

    def sample(self, obj, cap=12):
        if len(self.samples) < cap:
            self.samples.append(obj)

    def sub_rng(self, *key):
        return random.Random("%s/%s/%s" % (self.prop, self.seed, "/".join(map(str, key))))

    # -- verdicts -----------------------------------------------------------
    def refute(self, sig, what, case, observed=None, expected=None):
        """An oracle refuted an event. `sig` is the classifier's signature
        (matched against known_findings.json), `what` a one-line description,
        `case` the replayable input."""
        if sig in self._known:
            self.known_seen[sig] = self.known_seen.get(sig, 0) + 1
            if sig not in self.known_example:
                self.known_example[sig] = dict(what=what, case=case, observed=observed, expected=expected)
            return False
        self._replay_n += 1
        if len(self.violations) < self.max_reported:
            path = os.path.join(REPLAYS, "%s-%s-%d-%d.json" % (self.prop, self.tier, self.seed, self._replay_n))
            doc = dict(property=self.prop, signature=sig, what=what, seed=self.seed, tier=self.tier,
                       tree=self.bins.get("hash"), case=case, observed=observed, expected=expected)
            tmp = path + ".tmp"
            with open(tmp, "w", encoding="utf-8", errors="surrogatepass") as f:      # argv with non-UTF-8 bytes travels as lone surrogates
                json.dump(doc, f, indent=1, ensure_ascii=False, default=repr)
            os.replace(tmp, path)
            print("VIOLATION property=%s replay=%s" % (self.prop, path))
            print("  signature=%s  %s" % (sig, what))
            sys.stdout.flush()
            self.violations.append((sig, path))
        else:
            self.violations.append((sig, None))
        return True

    # -- finish -------------------------------------------------------------
    def finish(self, min_evaluations=1, min_distinct=2):
        wall = time.time() - self.t0
        for key, n in sorted(self.known_seen.items()):
            ex = self.known_example.get(key, {})
            print("KNOWN-FINDING: property=%s %s (%s; seen %d times, e.g. %s)" % (
                self.prop, key, self._known[key].get("what", ""), n,
                json.dumps(ex.get("case"), ensure_ascii=False, default=repr)[:300]))
        cov = dict(
            evaluations=self.evaluations,
            distinct_nontrivial=len(self.distinct) + self.distinct_extra,
            rule=self.rule,
            samples=self.samples,
            counters=dict(sorted(self.counters.items())),
            known_findings_seen=self.known_seen,
            inconclusive_events=self.inconclusive_events,
            tree_hash=self.bins.get("hash"),
            notes=self.notes,
        )
        if self.exhaustive:
            cov["exhaustive"] = True
        doc = dict(property_id=self.prop, tier=self.tier, seed=self.seed, level=self.level, coverage=cov,
                   assumptions=self.assumptions, wall_s=round(wall, 2), violations=len(self.violations))
        if self.violations:
            cov["violation_signatures"] = sorted(set(sig for sig, _ in self.violations))
        os.makedirs(EVID, exist_ok=True)
        path = os.path.join(EVID, "%s.json" % self.prop)
        tmp = path + ".tmp%d" % os.getpid()
        with open(tmp, "w", encoding="utf-8", errors="backslashreplace") as f:    # evidence stays valid UTF-8
            json.dump(doc, f, indent=1, ensure_ascii=False, default=repr)
        os.replace(tmp, path)
        shutil.rmtree(self.tmp, ignore_errors=True)
        if self.violations:
            hist = {}
            for sig, _ in self.violations:
                hist[sig] = hist.get(sig, 0) + 1
            print("[%s] violation signatures: %s" % (self.prop, json.dumps(hist, sort_keys=True)))
            print("[%s] %d violation(s) on %d evaluations (%.1fs)" % (self.prop, len(self.violations), self.evaluations, wall))
            return 1
        ndist = len(self.distinct) + self.distinct_extra
        if self.evaluations < min_evaluations or ndist < min_distinct:
            print("INCONCLUSIVE property=%s: only %d evaluations / %d distinct non-trivial cases observed" % (
                self.prop, self.evaluations, ndist))
            return 2
        print("[%s] held on %d evaluations, %d distinct non-trivial (%s, seed %d, %.1fs)%s" % (
            self.prop, self.evaluations, ndist, self.tier, self.seed, wall,
            "" if not self.inconclusive_events else " ; %d inconclusive events" % self.inconclusive_events))
        return 0


def chunks(seq, n):
    seq = list(seq)
    for i in range(0, len(seq), n):
        yield seq[i:i + n]


def split_even(seq, k):
    seq = list(seq)
    k = max(1, min(k, len(seq)))
    size = (len(seq) + k - 1) // k
    return [seq[i:i + size] for i in range(0, len(seq), size)]
