//! zerv-probe: exposes the real public functions of the zerv library built from
//! /repo over a JSON-lines pipe.  One request per line on stdin, one reply per
//! line on stdout.  Every unit of work runs under catch_unwind, so a panic in
//! zerv is an *observation* ({"panic": msg, "at": "file:line"}), not a crash.
//!
//! No verdict is ever computed here; the oracles live in /verif/zv (Python).

use std::cell::RefCell;
use std::io::{BufRead, Write};
use std::panic::{AssertUnwindSafe, catch_unwind};
use std::path::Path;
use std::str::FromStr;

use clap::Parser;
use serde_json::{Value, json};
use zerv::cli::utils::template::Template;
use zerv::cli::{Cli, Commands};
use zerv::schema::ZervSchemaPreset;
use zerv::utils::sanitize::Sanitizer;
use zerv::vcs::git_utils::GitUtils;
use zerv::version::{PEP440, SemVer, Zerv};

thread_local! {
    static LAST_PANIC: RefCell<Option<(String, String)>> = const { RefCell::new(None) };
}

fn guarded<F: FnOnce() -> Value>(f: F) -> Value {
    LAST_PANIC.with(|p| *p.borrow_mut() = None);
    match catch_unwind(AssertUnwindSafe(f)) {
        Ok(v) => v,
        Err(payload) => {
            let (msg, at) = LAST_PANIC
                .with(|p| p.borrow_mut().take())
                .unwrap_or_else(|| {
                    let m = if let Some(s) = payload.downcast_ref::<&str>() {
                        s.to_string()
                    } else if let Some(s) = payload.downcast_ref::<String>() {
                        s.clone()
                    } else {
                        "?".to_string()
                    };
                    (m, "?".to_string())
                });
            json!({"panic": msg, "at": at})
        }
    }
}

fn strs(v: &Value, key: &str) -> Vec<String> {
    v.get(key)
        .and_then(|x| x.as_array())
        .map(|a| {
            a.iter()
                .map(|s| s.as_str().unwrap_or("").to_string())
                .collect()
        })
        .unwrap_or_default()
}

fn ord_char(o: std::cmp::Ordering) -> char {
    match o {
        std::cmp::Ordering::Less => 'L',
        std::cmp::Ordering::Equal => 'E',
        std::cmp::Ordering::Greater => 'G',
    }
}

/// rows x cols comparison matrix.  Each cell is one char: L/E/G when cmp,
/// partial_cmp, ==, <, > all tell the same story, '!' when they disagree,
/// '?' when either side does not parse.
fn cmp_matrix<T: FromStr + Ord>(rows: &[String], cols: &[String]) -> Value {
    let r: Vec<Option<T>> = rows.iter().map(|s| T::from_str(s).ok()).collect();
    let c: Vec<Option<T>> = cols.iter().map(|s| T::from_str(s).ok()).collect();
    let mut out: Vec<String> = Vec::with_capacity(r.len());
    for a in &r {
        let mut line = String::with_capacity(c.len());
        for b in &c {
            match (a, b) {
                (Some(a), Some(b)) => {
                    let o = a.cmp(b);
                    let p = a.partial_cmp(b);
                    let eq = a == b;
                    let lt = a < b;
                    let gt = a > b;
                    let le = a <= b;
                    let ge = a >= b;
                    let consistent = p == Some(o)
                        && eq == (o == std::cmp::Ordering::Equal)
                        && lt == (o == std::cmp::Ordering::Less)
                        && gt == (o == std::cmp::Ordering::Greater)
                        && le == (o != std::cmp::Ordering::Greater)
                        && ge == (o != std::cmp::Ordering::Less);
                    line.push(if consistent { ord_char(o) } else { '!' });
                }
                _ => line.push('?'),
            }
        }
        out.push(line);
    }
    json!({"rows": out})
}

fn sanitizer_from(req: &Value) -> Sanitizer {
    if let Some(p) = req.get("preset").and_then(|x| x.as_str()) {
        return match p {
            "semver_str" => Sanitizer::semver_str(),
            "pep440_local_str" => Sanitizer::pep440_local_str(),
            "uint" => Sanitizer::uint(),
            "key" => Sanitizer::key(),
            _ => Sanitizer::semver_str(),
        };
    }
    Sanitizer::str(
        req.get("separator").and_then(|x| x.as_str()),
        req.get("lowercase").and_then(|x| x.as_bool()).unwrap_or(false),
        req.get("keep_zeros").and_then(|x| x.as_bool()).unwrap_or(false),
        req.get("max_length").and_then(|x| x.as_u64()).map(|n| n as usize),
    )
}

fn run_cli(argv: Vec<String>, stdin: Option<&str>) -> Value {
    let cli = match Cli::try_parse_from(argv) {
        Ok(c) => c,
        Err(e) => {
            let kind = format!("{:?}", e.kind());
            let help = matches!(
                e.kind(),
                clap::error::ErrorKind::DisplayHelp | clap::error::ErrorKind::DisplayVersion
            );
            return json!({"clap": kind, "help": help, "text": e.to_string()});
        }
    };
    // same emptiness rule as app.rs::extract_stdin_once
    let stdin = stdin.filter(|s| !s.trim().is_empty());
    let res = match cli.command {
        Some(Commands::Version(a)) => zerv::cli::run_version_pipeline(*a, stdin),
        Some(Commands::Flow(a)) => zerv::cli::run_flow_pipeline(*a, stdin),
        Some(Commands::Check(a)) => zerv::cli::run_check_command(a),
        Some(Commands::Render(a)) => zerv::cli::run_render(*a),
        None => return json!({"none": true}),
    };
    match res {
        Ok(s) => json!({"ok": s}),
        Err(e) => json!({"err": e.to_string()}),
    }
}

fn handle(req: &Value) -> Value {
    let op = req.get("op").and_then(|x| x.as_str()).unwrap_or("");
    match op {
        "ping" => json!({"pong": true}),
        "semver_parse" => {
            let out: Vec<Value> = strs(req, "strings")
                .iter()
                .map(|s| {
                    guarded(|| match SemVer::from_str(s) {
                        Ok(v) => {
                            let d = v.to_string();
                            json!({"ok": true, "display": d})
                        }
                        Err(e) => json!({"ok": false, "err": e.to_string()}),
                    })
                })
                .collect();
            json!({"results": out})
        }
        "pep440_parse" => {
            let out: Vec<Value> = strs(req, "strings")
                .iter()
                .map(|s| {
                    guarded(|| match PEP440::from_str(s) {
                        Ok(v) => {
                            let d = v.to_string();
                            match PEP440::from_str(&d) {
                                Ok(v2) => {
                                    let d2 = v2.to_string();
                                    let eq = v == v2;
                                    let c = ord_char(v.cmp(&v2)).to_string();
                                    json!({"ok": true, "display": d, "display2": d2, "eq": eq, "cmp": c})
                                }
                                Err(e) => json!({"ok": true, "display": d, "reparse_err": e.to_string()}),
                            }
                        }
                        Err(e) => json!({"ok": false, "err": e.to_string()}),
                    })
                })
                .collect();
            json!({"results": out})
        }
        // compact acceptance bitmap for big exhaustive sweeps: one char per string
        // ('0' rejected, '1' accepted and display == input-without-v (semver) /
        // display returned separately when different)
        "parse_bulk" => {
            let fmt = req.get("fmt").and_then(|x| x.as_str()).unwrap_or("semver");
            let mut bits = String::new();
            let mut shown: Vec<Value> = Vec::new();
            for (i, s) in strs(req, "strings").iter().enumerate() {
                let r = guarded(|| {
                    if fmt == "semver" {
                        match SemVer::from_str(s) {
                            Ok(v) => json!({"d": v.to_string()}),
                            Err(_) => Value::Null,
                        }
                    } else {
                        match PEP440::from_str(s) {
                            Ok(v) => {
                                let d = v.to_string();
                                let again = PEP440::from_str(&d).ok();
                                let d2 = again.as_ref().map(|x| x.to_string());
                                let eq = again.as_ref().map(|x| *x == v);
                                json!({"d": d, "d2": d2, "eq": eq})
                            }
                            Err(_) => Value::Null,
                        }
                    }
                });
                if r.is_null() {
                    bits.push('0');
                } else {
                    bits.push('1');
                    shown.push(json!([i, r]));
                }
            }
            json!({"bits": bits, "accepted": shown})
        }
        "cmp_matrix" => {
            let fmt = req.get("fmt").and_then(|x| x.as_str()).unwrap_or("semver");
            let rows = strs(req, "rows");
            let cols = strs(req, "cols");
            guarded(|| {
                if fmt == "semver" {
                    cmp_matrix::<SemVer>(&rows, &cols)
                } else {
                    cmp_matrix::<PEP440>(&rows, &cols)
                }
            })
        }
        "max_tag" => {
            let tags = strs(req, "tags");
            let fmt = req.get("fmt").and_then(|x| x.as_str()).unwrap_or("auto").to_string();
            guarded(|| {
                let valid = GitUtils::filter_only_valid_tags(&tags, &fmt);
                let names: Vec<String> = valid.iter().map(|(t, _)| t.clone()).collect();
                let kinds: Vec<&str> = valid.iter().map(|(_, v)| v.format_str()).collect();
                match GitUtils::find_max_version_tag(&valid) {
                    Ok(m) => json!({"valid": names, "kinds": kinds, "max": m}),
                    Err(e) => json!({"valid": names, "kinds": kinds, "err": e.to_string()}),
                }
            })
        }
        "sanitize" => {
            let s = sanitizer_from(req);
            let out: Vec<Value> = strs(req, "strings")
                .iter()
                .map(|x| {
                    guarded(|| {
                        let once = s.sanitize(x);
                        Value::String(once)
                    })
                })
                .collect();
            json!({"results": out})
        }
        "ts" => {
            let items = req.get("items").and_then(|x| x.as_array()).cloned().unwrap_or_default();
            let out: Vec<Value> = items
                .iter()
                .map(|it| {
                    let p = it.get(0).and_then(|x| x.as_str()).unwrap_or("");
                    let t = it.get(1).and_then(|x| x.as_u64()).unwrap_or(0);
                    guarded(|| match zerv::version::zerv::resolve_timestamp(p, t) {
                        Ok(s) => Value::String(s),
                        Err(e) => json!({"err": e.to_string()}),
                    })
                })
                .collect();
            json!({"results": out})
        }
        // many timestamps x all given patterns, compact
        "ts_grid" => {
            let pats = strs(req, "patterns");
            let ts: Vec<u64> = req
                .get("timestamps")
                .and_then(|x| x.as_array())
                .map(|a| a.iter().map(|v| v.as_u64().unwrap_or(0)).collect())
                .unwrap_or_default();
            let out: Vec<Value> = ts
                .iter()
                .map(|t| {
                    guarded(|| {
                        let row: Vec<Value> = pats
                            .iter()
                            .map(|p| match zerv::version::zerv::resolve_timestamp(p, *t) {
                                Ok(s) => Value::String(s),
                                Err(e) => json!({"err": e.to_string()}),
                            })
                            .collect();
                        Value::Array(row)
                    })
                })
                .collect();
            json!({"results": out})
        }
        "zerv_obj" => {
            let ron = req.get("ron").and_then(|x| x.as_str()).unwrap_or("").to_string();
            guarded(|| match Zerv::from_str(&ron) {
                Ok(z) => {
                    let again = z.to_string();
                    let valid = Zerv::new(z.schema.clone(), z.vars.clone()).map(|_| true).map_err(|e| e.to_string());
                    let sem = guarded(|| Value::String(SemVer::from(z.clone()).to_string()));
                    let pep = guarded(|| Value::String(PEP440::from(z.clone()).to_string()));
                    json!({"ok": true, "ron": again, "valid": valid.is_ok(), "valid_err": valid.err(), "semver": sem, "pep440": pep})
                }
                Err(e) => json!({"ok": false, "err": e.to_string()}),
            })
        }
        "preset_schema" => {
            let name = req.get("name").and_then(|x| x.as_str()).unwrap_or("").to_string();
            let ron = req.get("ron").and_then(|x| x.as_str()).unwrap_or("").to_string();
            guarded(|| {
                let preset = match ZervSchemaPreset::from_str(&name) {
                    Ok(p) => p,
                    Err(e) => return json!({"err": e.to_string()}),
                };
                match Zerv::from_str(&ron) {
                    Ok(z) => {
                        let schema = preset.schema_with_zerv(&z.vars);
                        match Zerv::new(schema, z.vars.clone()) {
                            Ok(z2) => json!({"ron": z2.to_string()}),
                            Err(e) => json!({"err": e.to_string()}),
                        }
                    }
                    Err(e) => json!({"err": e.to_string()}),
                }
            })
        }
        "branch_rule" => {
            let rules = req.get("rules").and_then(|x| x.as_str()).map(|s| s.to_string());
            let branches: Vec<Option<String>> = req
                .get("branches")
                .and_then(|x| x.as_array())
                .map(|a| a.iter().map(|v| v.as_str().map(|s| s.to_string())).collect())
                .unwrap_or_default();
            guarded(|| {
                use zerv::cli::flow::branch_rules::BranchRules;
                let br = match &rules {
                    Some(r) => match BranchRules::from_str(r) {
                        Ok(b) => b,
                        Err(e) => return json!({"err": e.to_string()}),
                    },
                    None => BranchRules::default_rules(),
                };
                let out: Vec<Value> = branches
                    .iter()
                    .map(|b| {
                        let r = br.resolve_for_branch(b.as_deref());
                        json!({"label": r.pre_release_label.to_string(), "num": r.pre_release_num, "mode": r.post_mode.to_string()})
                    })
                    .collect();
                json!({"results": out})
            })
        }
        "template" => {
            let t = req.get("template").and_then(|x| x.as_str()).unwrap_or("").to_string();
            let ron = req.get("ron").and_then(|x| x.as_str()).map(|s| s.to_string());
            guarded(|| {
                let z = match &ron {
                    Some(r) => match Zerv::from_str(r) {
                        Ok(z) => Some(z),
                        Err(e) => return json!({"err": format!("ron: {e}")}),
                    },
                    None => None,
                };
                let tpl: Template<String> = Template::new(t.clone());
                match tpl.render(z.as_ref()) {
                    Ok(v) => json!({"ok": v}),
                    Err(e) => json!({"err": e.to_string()}),
                }
            })
        }
        "cli" => {
            let argv = strs(req, "argv");
            let stdin = req.get("stdin").and_then(|x| x.as_str()).map(|s| s.to_string());
            guarded(|| run_cli(argv, stdin.as_deref()))
        }
        "cli_batch" => {
            let items = req.get("items").and_then(|x| x.as_array()).cloned().unwrap_or_default();
            let out: Vec<Value> = items
                .iter()
                .map(|it| {
                    let argv = strs(it, "argv");
                    let stdin = it.get("stdin").and_then(|x| x.as_str()).map(|s| s.to_string());
                    guarded(|| run_cli(argv, stdin.as_deref()))
                })
                .collect();
            json!({"results": out})
        }
        "vcs_data" => {
            let dir = req.get("dir").and_then(|x| x.as_str()).unwrap_or(".").to_string();
            let fmt = req.get("fmt").and_then(|x| x.as_str()).unwrap_or("auto").to_string();
            guarded(|| {
                let vcs = match zerv::vcs::detect_vcs_with_limit(Path::new(&dir), Some(0)) {
                    Ok(v) => v,
                    Err(e) => return json!({"err": e.to_string(), "stage": "detect"}),
                };
                match vcs.get_vcs_data(&fmt) {
                    Ok(d) => json!({
                        "tag_version": d.tag_version,
                        "tag_commit_hash": d.tag_commit_hash,
                        "tag_timestamp": d.tag_timestamp,
                        "commit_hash": d.commit_hash,
                        "commit_hash_prefix": d.commit_hash_prefix,
                        "commit_timestamp": d.commit_timestamp,
                        "current_branch": d.current_branch,
                        "is_dirty": d.is_dirty,
                        "distance": d.distance,
                    }),
                    Err(e) => json!({"err": e.to_string(), "stage": "get"}),
                }
            })
        }
        _ => json!({"error": format!("unknown op {op}")}),
    }
}

fn main() {
    std::panic::set_hook(Box::new(|info| {
        let msg = if let Some(s) = info.payload().downcast_ref::<&str>() {
            s.to_string()
        } else if let Some(s) = info.payload().downcast_ref::<String>() {
            s.clone()
        } else {
            "?".to_string()
        };
        let at = info
            .location()
            .map(|l| format!("{}:{}", l.file(), l.line()))
            .unwrap_or_else(|| "?".to_string());
        LAST_PANIC.with(|p| *p.borrow_mut() = Some((msg, at)));
    }));
    let stdin = std::io::stdin();
    let stdout = std::io::stdout();
    let mut out = std::io::BufWriter::new(stdout.lock());
    for line in stdin.lock().lines() {
        let line = match line {
            Ok(l) => l,
            Err(_) => break,
        };
        if line.trim().is_empty() {
            continue;
        }
        let reply = match serde_json::from_str::<Value>(&line) {
            Ok(req) => handle(&req),
            Err(e) => json!({"error": format!("bad request: {e}")}),
        };
        let _ = writeln!(out, "{}", reply);
        let _ = out.flush();
    }
}
